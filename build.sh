#!/bin/bash
# Instrument the current /repo working tree and build the simulation test
# binaries. Output: /verif/.work/<hash>/{h.test,h.race.test}. Prints the dir.
# usage: build.sh [race]
set -euo pipefail
export GOFLAGS=-mod=mod GOPROXY=off GOSUMDB=off GOTOOLCHAIN=local CGO_ENABLED=1
export PATH=/opt/veriftools/go1.26.8/bin:$PATH
V="$(dirname "$(readlink -f "$0")")"
WORK=$V/.work
# VERIF_REPO lets internal tooling (seeded-change runs) build against a scratch
# copy of the repository; registered checks always use /repo.
REPO=${VERIF_REPO:-/repo}
mkdir -p $WORK/bin
PKGS="
github.com/IrineSistiana/mosdns/v5/pkg/upstream/transport
github.com/IrineSistiana/mosdns/v5/pkg/upstream
github.com/IrineSistiana/mosdns/v5/pkg/upstream/doh
github.com/IrineSistiana/mosdns/v5/pkg/pool
github.com/IrineSistiana/mosdns/v5/pkg/cache
github.com/IrineSistiana/mosdns/v5/pkg/concurrent_map
github.com/IrineSistiana/mosdns/v5/pkg/server
github.com/IrineSistiana/mosdns/v5/pkg/server_handler
github.com/IrineSistiana/mosdns/v5/pkg/query_context
github.com/IrineSistiana/mosdns/v5/plugin/executable/cache
github.com/IrineSistiana/mosdns/v5/plugin/executable/forward
github.com/IrineSistiana/mosdns/v5/plugin/executable/sequence
github.com/IrineSistiana/mosdns/v5/plugin/executable/sequence/fallback
github.com/IrineSistiana/mosdns/v5/plugin/executable/dual_selector
golang.org/x/sync/singleflight
"
OSPKGS=github.com/IrineSistiana/mosdns/v5/plugin/executable/cache
cd $V/sim
# hash of inputs: repo sources of instrumented packages + harness sources
H=$( (echo $REPO; cd $REPO && find . -name '*.go' -not -name '*_test.go' -newer /dev/null -print0 | sort -z | xargs -0 sha256sum; cat go.mod go.sum; cd $V/sim && find . -name '*.go' -print0 | sort -z | xargs -0 sha256sum; cat go.mod; cat $V/build.sh) | sha256sum | cut -c1-16)
OUT=$WORK/$H
MODE=${1:-plain}
BIN=$OUT/h.test
[ "$MODE" = race ] && BIN=$OUT/h.race.test
if [ -x "$BIN" ]; then touch $OUT; echo $OUT; exit 0; fi
mkdir -p $OUT
(
flock 9
if [ ! -x "$BIN" ]; then
  if [ ! -x $WORK/bin/instr.$H ]; then
    go build -o $WORK/bin/instr.$H ./cmd/instr >&2
  fi
  if [ "$REPO" != /repo ]; then
    # same module, other checkout: an alternative go.mod whose replace points there
    sed -e "s|=> /repo\$|=> $REPO|" -e "s|=> ./third_party/x_sync|=> $V/sim/third_party/x_sync|" go.mod > $OUT/go.mod
    cp go.sum $OUT/go.sum
    export GOFLAGS="-mod=mod -modfile=$OUT/go.mod"
  fi
  if [ ! -f $OUT/overlay.json ]; then
    $WORK/bin/instr.$H -out $OUT/ov -overlay $OUT/overlay.json.tmp -mod $V/sim -inject $V/sim/inject -ospkgs $OSPKGS $PKGS >&2
    # ServeUDP takes a concrete *net.UDPConn: in the overlay copy its parameter becomes the
    # interface of sim/inject/.../pkg/server/zz_verif_udp.go, so the real loop runs on a simulated socket.
    python3 - $OUT $REPO <<'PYEOF' >&2
import json, re, sys, os
out, repo = sys.argv[1], sys.argv[2]
ovf = out + "/overlay.json.tmp"
ov = json.load(open(ovf))
src = repo + "/pkg/server/udp.go"
dst = ov["Replace"].get(src)
if dst is None:
    dst = out + "/ov/github.com/IrineSistiana/mosdns/v5/pkg/server/udp.go"
    os.makedirs(os.path.dirname(dst), exist_ok=True)
    open(dst, "w").write(open(src).read())
    ov["Replace"][src] = dst
s = open(dst).read()
s, n1 = re.subn(r"func ServeUDP\((\w+) \*net\.UDPConn,", r"func ServeUDP(\1 verifUDPConn,", s)
s, n2 = re.subn(r"initOobHandler\((\w+)\)", r"verifInitOob(\1)", s)
if n1 != 1 or n2 < 1:
    sys.exit("build.sh: cannot put ServeUDP on a simulated socket (signature changed)")
open(dst, "w").write(s)
json.dump(ov, open(ovf, "w"))
PYEOF
    mv $OUT/overlay.json.tmp $OUT/overlay.json
  fi
  if [ "$MODE" = race ]; then
    go test -c -race -overlay $OUT/overlay.json -o $BIN.tmp ./h >&2
  else
    go test -c -overlay $OUT/overlay.json -o $BIN.tmp ./h >&2
  fi
  mv $BIN.tmp $BIN
fi
) 9>$OUT/.lock
# keep the build directories of the 8 most recently used trees (disk is limited)
ls -1dt $WORK/*/ 2>/dev/null | grep -v "^$WORK/bin/" | tail -n +9 | while read d; do
  h=$(basename $d); [ "$h" = "$H" ] && continue
  rm -rf "$d" "$WORK/bin/instr.$h"
done
echo $OUT
