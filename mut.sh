#!/bin/bash
# usage: mut.sh <PROP> <file> <python-replace-old> <python-replace-new> [check args...]
# Applies a textual mutation to /repo, runs the check, reverts.
P=$1; F=$2; OLD=$3; NEW=$4; shift 4
python3 - "$F" "$OLD" "$NEW" <<'PY'
import sys
p,old,new=sys.argv[1:4]
s=open(p).read()
assert old in s, "pattern not found"
open(p,'w').write(s.replace(old,new,1))
PY
[ $? -ne 0 ] && exit 9
cd /verif && ./check $P "$@" 2>&1 | tail -2
git -C /repo checkout -- .
