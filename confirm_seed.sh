#!/bin/bash
# usage: confirm_seed.sh <PROP> <bugdir>   e.g. confirm_seed.sh C03 /tmp/seed_C03_out/bug1
# Confirms in a scratch worktree that the patch compiles, the existing suite passes with it,
# and the demonstration fails with / passes without it. Prints a JSON summary line.
set -u
export GOFLAGS=-mod=mod GOPROXY=off GOSUMDB=off
P=$1; B=$2
WT=/tmp/confirm_$$
git -C /repo worktree add -q --detach $WT HEAD || exit 2
cd $WT
pkgdir=$(python3 -c "import json,sys;print(json.load(open('$B/meta.json')).get('demo_package_dir',''))" 2>/dev/null)
pkgdir=${pkgdir%% *}; pkgdir=${pkgdir#/tmp/seed_${P}/}; pkgdir=${pkgdir#./}; pkgdir=${pkgdir%/}
[ -z "$pkgdir" ] && pkgdir=$(grep -l . $B/meta.json >/dev/null; echo "")
apply_ok=no; build_ok=no; suite_ok=no; demo_with=unknown; demo_without=unknown
if git apply $B/patch.diff 2>/dev/null; then apply_ok=yes; fi
if go build ./... 2>/dev/null; then build_ok=yes; fi
if go test -vet=off -count=1 ./... > $WT/suite.txt 2>&1; then suite_ok=yes; else suite_ok="no:$(grep -E '^(--- FAIL|FAIL)' $WT/suite.txt | head -3 | tr '\n' ' ')"; fi
cp $B/demo_test.go $pkgdir/zz_seed_demo_test.go
runpat=$(grep -oE 'func (Test[A-Za-z0-9_]+)' $pkgdir/zz_seed_demo_test.go | awk '{print $2}' | paste -sd'|')
if go test -vet=off -count=1 -run "^($runpat)\$" ./$pkgdir/ > $WT/with.txt 2>&1; then demo_with=PASS; else demo_with=FAIL; fi
git checkout -q -- . 
if go test -vet=off -count=1 -run "^($runpat)\$" ./$pkgdir/ > $WT/without.txt 2>&1; then demo_without=PASS; else demo_without=FAIL; fi
echo "{\"prop\":\"$P\",\"bug\":\"$B\",\"apply\":\"$apply_ok\",\"build\":\"$build_ok\",\"suite\":\"$suite_ok\",\"demo_with_patch\":\"$demo_with\",\"demo_without_patch\":\"$demo_without\",\"pkg\":\"$pkgdir\"}"
cd /; git -C /repo worktree remove --force $WT
