#!/bin/bash
# Runs every claimed check (quick tier by default) and prints one line each.
cd "$(dirname "$(readlink -f "$0")")"
TIER=${1:-quick}
for p in $(python3 -c "import json;print(' '.join(c['property_id'] for c in json.load(open('MANIFEST.json'))['checks']))"); do
  out=$(./check $p --tier $TIER 2>&1); rc=$?
  echo "$p rc=$rc $(echo "$out" | grep -E 'OK|VIOLATION|KNOWN-FINDING|FAILED' | tr '\n' ' ')"
done
