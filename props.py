# Per-property settings of the check driver.
W1_COMPONENTS = {
    "real": ["pkg/upstream/transport (TraditionalDnsConn, lazyDnsConn, PipelineTransport, ReuseConnTransport)",
             "pkg/upstream.NewUpstream for udp://, tcp://, tcp+pipeline:// incl. udpWithFallback",
             "pkg/dnsutils framing, pkg/pool (poisoning allocator behind pool.GetBuf/ReleaseBuf)", "miekg/dns"],
    "stub": ["kernel sockets -> simnet", "wall clock -> synctest bubble clock", "Go scheduler/select/map order/rand -> simrt PRNG",
             "DNS server -> scripted sim server"],
}

W3_COMPONENTS = {
    "real": ["pkg/cache.Cache, pkg/concurrent_map (instrumented: every lock/atomic is a preemption point)", "plugin/executable/cache dump/load (C19)", "klauspost gzip, protobuf, miekg/dns"],
    "stub": ["Go scheduler/map order/maphash -> simrt PRNG", "wall clock/ticker -> synctest bubble clock", "file system -> simdisk (C19)"],
}

W2_COMPONENTS = {
    "real": ["plugin/executable/cache (Exec, lazy refresh via x/sync/singleflight, instrumented)", "pkg/cache, pkg/concurrent_map", "pkg/query_context", "plugin/executable/sequence ChainWalker", "pkg/dnsutils TTL helpers", "miekg/dns"],
    "stub": ["next plugin -> scripted origin (unique versions, delays, errors)", "wall clock -> synctest bubble clock", "Go scheduler/select/map order -> simrt PRNG"],
}

PROPS = {
    "C14": {
        "level": "exploration",
        "quick_runs": 8000, "quick_budget_s": 60,
        "thorough_budget_s": 600,
        "rule": "C14 scenario: real Forward.exchange (and QuickConfigureExec tag subsets) over 1-5 scripted in-memory upstreams with per-invocation outcome {NOERROR,NXDOMAIN,SERVFAIL,REFUSED,error,garbage,never} and completion instant (ties, 5 s boundary), concurrent in {-1,0,1,2,3,5}, caller deadline/cancel at chosen instants, PRNG start index.",
        "components": {"real": ["plugin/executable/forward (exchange, QuickConfigureExec, copyPayload; instrumented)", "pkg/query_context", "pkg/pool with poisoning allocator", "miekg/dns"],
                       "stub": ["upstream.Upstream -> scripted in-memory upstreams (C01/C07 cover the real transports)", "clock, scheduler, rand.IntN -> simulator"]},
        "cfg_dist_keys": ["upstreams", "concurrent", "calls"],
    },
    "C10": {
        "level": "exploration",
        "race": True,
        "quick_runs": 6000, "quick_budget_s": 90,
        "thorough_budget_s": 600,
        "rule": "C10 scenario: cache -> observer -> [ttl plugin] -> vandal -> origin; 2-6 rounds of 1-6 concurrent queries over 1-3 keys; every hit is packed before anybody touches it and compared byte-wise with the aged snapshot of the stored answer, after earlier hits and the stored-from message were vandalised in place; same seeds under the race detector.",
        "components": W2_COMPONENTS,
        "cfg_dist_keys": ["keys", "max_concurrent", "ttl_plugin", "lazy"],
        "technique": "deterministic simulation: PRNG scheduler + virtual clock, byte-wise differential oracle against snapshots, race detector under the simulated schedule",
    },
    "C05": {
        "level": "exploration",
        "quick_runs": 6000, "quick_budget_s": 60,
        "thorough_budget_s": 600,
        "rule": "C05 scenario: real cache plugin over a scripted origin; 2-9 phases, each advancing the virtual clock to an instant around a boundary of the current entry (k s -1ns/k s/k s+1ns, lifetime +-1ns, lazy window +-1ns) and issuing a burst of 1-8 concurrent queries; answers with TTL mixes incl. 0 and 2^32-1, any rcode, TC, OPT; lazy_cache_ttl off/on; slow/failing refresh.",
        "components": W2_COMPONENTS,
        "cfg_dist_keys": ["lazy", "keys", "phases"],
    },
    "C19": {
        "level": "fault_enumeration",
        "quick_runs": 1500, "quick_budget_s": 90,
        "thorough_budget_s": 600,
        "rule": "C19 scenario: cache plugin filled with 0..300 PRNG answers at several virtual instants, dumped (Close->simdisk file or GET /dump), restarted at a later instant (dump_file or POST /load_dump) and compared answer-by-answer with a never-restarted twin; then every prefix length of the dump (dumps <= 1500 bytes: exhaustive; larger: both ends + 150 sampled cut points) is loaded into an empty instance; disk-full cuts through the real dumpCache path; byte flips and arbitrary inputs. Counts of cut points are in config_distribution/samples.",
        "components": W3_COMPONENTS,
        "cfg_dist_keys": ["entries", "via", "enospc", "prefix_sweep_exhaustive", "whole_seconds", "lazy"],
        "cfg_sum_keys": ["prefixes_tried", "dump_bytes"],
        "level_text": "Crash points of the dump stream are enumerated per generated dump (every truncation point for small dumps, boundary-biased samples for multi-block dumps) inside seeded simulated runs with a virtual clock; faithful reload is a differential check against a never-restarted twin. Evidence, not proof.",
        "technique": "deterministic simulation with a simulated disk: enumeration of truncation points (crash points) per dump, seeded search over cache contents/instants, differential oracle against a never-restarted twin",
    },
    "C11": {
        "level": "exploration",
        "race": True,
        "quick_runs": 6000, "quick_budget_s": 90,
        "thorough_budget_s": 600,
        "rule": "C11 scenario: 2-8 tasks x Get/Store/Flush/Len/Range on pkg/cache with colliding shards, unique values, expiries around now, cleaner running; sizes from {-5,0,1,10,63,64,100,1024,1100}; bulk sub-scenario stores >1024 distinct keys. History checked with porcupine (<=60 ops); same seeds also run in a -race build whose scheduler hand-offs are invisible to the race detector.",
        "components": W3_COMPONENTS,
        "cfg_dist_keys": ["size", "tasks", "bulk"],
        "technique": "deterministic simulation: PRNG scheduler over instrumented locks + virtual clock; porcupine linearizability check of the recorded history against a lossy-map model; race detector under the simulated schedule",
    },
    "C17": {
        "level": "exploration",
        "quick_runs": 5000, "quick_budget_s": 45,
        "thorough_budget_s": 300,
        "rule": "C17 scenario: real NewUpstream(udp://) against a datagram and a stream server on one address; UDP replies with PRNG header flags/sizes (TC on/off), TCP side answers / refuses / dies mid-exchange; 1-4 concurrent callers.",
        "components": W1_COMPONENTS,
        "cfg_dist_keys": ["tcp_mode", "p_tc"],
    },
    "C09": {
        "level": "exploration",
        "quick_runs": 5000, "quick_budget_s": 60,
        "thorough_budget_s": 600,
        "rule": "C09 scenario: (history) random completed/cancelled/unanswered queries on a transport with limit L in 1..6 with the per-connection invariant checked at every received query, then a quiescent capacity probe; (dialing) Lq callers queued on a held dial; (direct) Reserve/Exchange/Withdraw on one TraditionalDnsConn from several tasks.",
        "components": W1_COMPONENTS,
        "cfg_dist_keys": ["mode", "kind", "L"],
    },
    "C08": {
        "level": "exploration",
        "quick_runs": 5000, "quick_budget_s": 60,
        "thorough_budget_s": 600,
        "rule": "C08 scenario: bursts and streams of 1-40 queries on stream transports while the server kills connections (close after reply, close after idling, silent death = reset on next write, close with queries in flight); dials always succeed.",
        "components": W1_COMPONENTS,
        "cfg_dist_keys": ["kind", "burst", "p_close_after", "p_silent_kill"],
    },
    "C07": {
        "level": "exploration",
        "quick_runs": 5000, "quick_budget_s": 60,
        "thorough_budget_s": 600,
        "rule": "C07 scenario: 1-6 callers x 1-3 exchanges on one of 6 transports under dial error/hang, k-th write/read error, short/garbage frames, peer close with queries in flight, silence (incl. an entirely mute server with unbounded contexts), context cancel/deadline and transport Close at PRNG-chosen instants.",
        "components": W1_COMPONENTS,
        "cfg_dist_keys": ["kind", "mute", "callers"],
    },
    "C01": {
        "level": "exploration",
        "quick_runs": 6000, "quick_budget_s": 45,
        "thorough_budget_s": 600,
        "rule": "C01 scenario: 1-8 callers x 1-6 exchanges with unique questions and colliding caller IDs on one of 6 transports; replies permuted by PRNG delays, duplicated, strays, datagram loss, cancellations, wire-ID wrap-around.",
        "components": W1_COMPONENTS,
        "cfg_dist_keys": ["kind", "id_mode", "wrap", "surplus"],
    },
    "C02": {
        "level": "exploration",
        "quick_runs": 6000, "quick_budget_s": 45,
        "thorough_budget_s": 600,
        "rule": "C02 scenario: 1-4 callers x 1-3 exchanges on one of 6 transports; server latency biased to 0, duplicates, EOF/RST right after a reply, stream chunking.",
        "components": W1_COMPONENTS,
        "cfg_dist_keys": ["kind", "callers", "chunk"],
    },
}
