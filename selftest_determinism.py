#!/usr/bin/env python3
"""Determinism self-test (DESIGN.md section 8): for every scenario run the same
seeds in fresh processes at GOMAXPROCS 1/4/16, in the plain and the -race build,
and require identical (trace hash, sched hash, steps, choice count, end, violation).
usage: selftest_determinism.py [nseeds] [props...]"""
import json, os, subprocess, sys, tempfile
V = os.path.dirname(os.path.abspath(__file__))
sys.path.insert(0, V)
import props

def build(race):
    p = subprocess.run([os.path.join(V, "build.sh")] + (["race"] if race else []), stdout=subprocess.PIPE, stderr=subprocess.PIPE, text=True)
    if p.returncode != 0:
        print(p.stderr[-3000:]); sys.exit(2)
    return os.path.join(p.stdout.strip().splitlines()[-1], "h.race.test" if race else "h.test")

def run(binary, scen, seed, frm, n, gmp):
    out = tempfile.mktemp(dir=os.path.join(V, ".work"), suffix=".jsonl")
    recs = {}
    cur = frm
    while cur < frm + n:
        env = dict(os.environ, VERIF_PROP=scen, VERIF_SEED=str(seed), VERIF_RUN_FROM=str(cur), VERIF_RUN_N=str(frm + n - cur),
                   VERIF_OUT=out, GOMAXPROCS=str(gmp), GORACE="halt_on_error=1 exitcode=66")
        p = subprocess.run([binary, "-test.run", "^TestWorker$", "-test.cpu", "1", "-test.timeout", "0"], env=env, stdout=subprocess.PIPE, stderr=subprocess.PIPE, text=True)
        last = cur - 1
        with open(out) as f:
            for line in f:
                r = json.loads(line)
                recs[r["run"]] = (r["trace_hash"], r["sched_hash"], r["steps"], r["nchoices"], r["end"], (r.get("viol") or {}).get("class"), r["sim_ns"])
                last = max(last, r["run"])
        os.unlink(out)
        if p.returncode == 3:
            cur = last + 1
            continue
        if p.returncode != 0:
            recs[last + 1] = ("CRASH rc=%d" % p.returncode, p.stderr[-300:])
            cur = last + 2
            continue
        break
    return recs

def main():
    nseeds = int(sys.argv[1]) if len(sys.argv) > 1 else 40
    which = sys.argv[2:] or sorted(props.PROPS)
    plain, race = build(False), build(True)
    bad = 0
    for prop in which:
        scens = props.PROPS[prop].get("scenarios") or [prop]
        for scen in scens:
            base = run(plain, scen, 7, 0, nseeds, 1)
            confs = [(plain, 1, "plain/1"), (plain, 4, "plain/4"), (plain, 16, "plain/16")]
            if props.PROPS[prop].get("race"):
                # only scenarios written for the race build (no shared harness state) are compared there
                confs += [(race, 1, "race/1"), (race, 4, "race/4"), (race, 16, "race/16")]
            for (b, gmp, name) in confs:
                other = run(b, scen, 7, 0, nseeds, gmp)
                diff = [k for k in base if base[k] != other.get(k)]
                if diff:
                    bad += 1
                    print("NONDETERMINISTIC %s %s: runs %s e.g. %s vs %s" % (scen, name, diff[:5], base[diff[0]], other.get(diff[0])))
            print("%s: %d runs x %d configurations compared" % (scen, len(base), len(confs) + 1))
    print("determinism self-test:", "FAILED" if bad else "ok")
    sys.exit(1 if bad else 0)

main()
