#!/bin/bash
# usage: seedrun.sh <PROP> <patch.diff> [check args]: apply a seeded change to /repo, run the check, undo.
P=$1; PATCH=$2; shift 2
cd /repo && git apply $PATCH || { echo "APPLY FAILED"; exit 9; }
cd /verif && out=$(./check $P "$@" 2>&1); rc=$?
git -C /repo checkout -- . 
echo "$out" | grep -E '^violation|VIOLATION|^OK|FAILED' | cut -c1-400
echo "rc=$rc"
