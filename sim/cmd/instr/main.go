// instr rewrites the concurrency-relevant constructs of mosdns packages so that
// they run under the simrt scheduler, and emits a `go build -overlay` file.
// Nothing under /repo is written.
//
// usage: instr -out DIR -overlay FILE -mod /verif/sim [-inject DIR] pkg...
// where pkg is an import path resolvable from the harness module.
package main

import (
	"bytes"
	"encoding/json"
	"flag"
	"fmt"
	"go/ast"
	"go/build"
	"go/importer"
	"go/parser"
	"go/token"
	"go/types"
	"io"
	"os"
	"os/exec"
	"path/filepath"
	"sort"
	"strings"
)

const simrtPath = "verif/sim/simrt"

type listPkg struct {
	ImportPath string
	Dir        string
	Export     string
	GoFiles    []string
	Module     *struct{ GoVersion string }
}

var (
	exports = map[string]string{}
	pkgs    = map[string]*listPkg{}
)

func fatal(f string, a ...any) {
	fmt.Fprintf(os.Stderr, "instr: "+f+"\n", a...)
	os.Exit(2)
}

func main() {
	out := flag.String("out", "", "output directory")
	ovf := flag.String("overlay", "", "overlay json to write")
	mod := flag.String("mod", ".", "harness module dir")
	inject := flag.String("inject", "", "directory with files to add: <inject>/<importpath>/*.go")
	osPkgs := flag.String("ospkgs", "", "comma separated import paths in which os.Create/os.Open are routed to simrt")
	flag.Parse()
	targets := flag.Args()
	if *out == "" || *ovf == "" || len(targets) == 0 {
		fatal("bad usage")
	}
	osSet := map[string]bool{}
	for _, p := range strings.Split(*osPkgs, ",") {
		if p != "" {
			osSet[p] = true
		}
	}

	// go list -export -deps -json
	cmd := exec.Command("go", append([]string{"list", "-export", "-deps", "-json=ImportPath,Dir,Export,GoFiles,Module"}, targets...)...)
	cmd.Dir = *mod
	cmd.Stderr = os.Stderr
	outb, err := cmd.Output()
	if err != nil {
		fatal("go list failed: %v", err)
	}
	dec := json.NewDecoder(bytes.NewReader(outb))
	for {
		var p listPkg
		if err := dec.Decode(&p); err == io.EOF {
			break
		} else if err != nil {
			fatal("go list json: %v", err)
		}
		pp := p
		pkgs[p.ImportPath] = &pp
		if p.Export != "" {
			exports[p.ImportPath] = p.Export
		}
	}

	fset := token.NewFileSet()
	imp := importer.ForCompiler(fset, "gc", func(path string) (io.ReadCloser, error) {
		f, ok := exports[path]
		if !ok {
			return nil, fmt.Errorf("no export data for %s", path)
		}
		return os.Open(f)
	})

	overlay := map[string]string{}
	stats := map[string]int{}
	for pi, tp := range targets {
		p := pkgs[tp]
		if p == nil {
			fatal("package %s not listed", tp)
		}
		rw := &rewriter{fset: fset, pkgPath: tp, base: (pi + 1) * 10000, sites: map[int]string{}, stats: stats, osRoute: osSet[tp]}
		var files []*ast.File
		srcs := map[*ast.File][]byte{}
		names := map[*ast.File]string{}
		for _, gf := range p.GoFiles {
			fn := filepath.Join(p.Dir, gf)
			src, err := os.ReadFile(fn)
			if err != nil {
				fatal("%v", err)
			}
			if bytes.Contains(src, []byte("//go:embed")) || bytes.Contains(src, []byte("//go:linkname")) || bytes.Contains(src, []byte("import \"C\"")) {
				fatal("%s: unsupported directive", fn)
			}
			f, err := parser.ParseFile(fset, fn, src, parser.SkipObjectResolution)
			if err != nil {
				fatal("parse: %v", err)
			}
			files = append(files, f)
			srcs[f] = src
			names[f] = fn
		}
		info := &types.Info{
			Types:      map[ast.Expr]types.TypeAndValue{},
			Uses:       map[*ast.Ident]types.Object{},
			Defs:       map[*ast.Ident]types.Object{},
			Selections: map[*ast.SelectorExpr]*types.Selection{},
		}
		gov := "go1.22"
		if p.Module != nil && p.Module.GoVersion != "" {
			gov = "go" + p.Module.GoVersion
		}
		conf := types.Config{Importer: imp, GoVersion: gov}
		var terrs []error
		conf.Error = func(err error) { terrs = append(terrs, err) }
		conf.Check(tp, fset, files, info)
		if len(terrs) > 0 {
			for _, e := range terrs {
				fmt.Fprintln(os.Stderr, e)
			}
			fatal("type errors in %s", tp)
		}
		rw.info = info
		rel := tp
		odir := filepath.Join(*out, rel)
		if err := os.MkdirAll(odir, 0o755); err != nil {
			fatal("%v", err)
		}
		for _, f := range files {
			rw.src = srcs[f]
			rw.file = f
			rw.keep = map[string]bool{}
			rw.fileBase = relName(names[f])
			body := rw.renderFile(f)
			ofn := filepath.Join(odir, filepath.Base(names[f]))
			if err := os.WriteFile(ofn, []byte(body), 0o644); err != nil {
				fatal("%v", err)
			}
			// sanity: output must parse
			if _, err := parser.ParseFile(token.NewFileSet(), ofn, body, 0); err != nil {
				fatal("instrumented output does not parse: %v", err)
			}
			overlay[names[f]] = ofn
		}
		// sites file
		var sb strings.Builder
		fmt.Fprintf(&sb, "package %s\n\nimport _simrt %q\n\nfunc init() {\n\t_simrt.RegisterSites(map[int]string{\n", files[0].Name.Name, simrtPath)
		ids := make([]int, 0, len(rw.sites))
		for id := range rw.sites {
			ids = append(ids, id)
		}
		sort.Ints(ids)
		for _, id := range ids {
			fmt.Fprintf(&sb, "\t\t%d: %q,\n", id, rw.sites[id])
		}
		sb.WriteString("\t})\n}\n")
		sfn := filepath.Join(odir, "zz_verif_sites.go")
		if err := os.WriteFile(sfn, []byte(sb.String()), 0o644); err != nil {
			fatal("%v", err)
		}
		overlay[filepath.Join(p.Dir, "zz_verif_sites.go")] = sfn
		// injected files
		if *inject != "" {
			idir := filepath.Join(*inject, tp)
			ents, _ := os.ReadDir(idir)
			for _, e := range ents {
				if strings.HasSuffix(e.Name(), ".go") {
					overlay[filepath.Join(p.Dir, e.Name())] = filepath.Join(idir, e.Name())
				}
			}
		}
	}
	// injected files for packages that are not instrumented
	if *inject != "" {
		filepath.Walk(*inject, func(path string, fi os.FileInfo, err error) error {
			if err != nil || fi.IsDir() || !strings.HasSuffix(path, ".go") {
				return nil
			}
			rel, _ := filepath.Rel(*inject, filepath.Dir(path))
			if p := pkgs[rel]; p != nil {
				overlay[filepath.Join(p.Dir, fi.Name())] = path
			} else if bp, err := build.Default.Import(rel, *mod, build.FindOnly); err == nil && bp.Dir != "" {
				overlay[filepath.Join(bp.Dir, fi.Name())] = path
			}
			return nil
		})
	}
	ob, _ := json.MarshalIndent(map[string]any{"Replace": overlay}, "", " ")
	if err := os.WriteFile(*ovf, ob, 0o644); err != nil {
		fatal("%v", err)
	}
	sb, _ := json.Marshal(stats)
	fmt.Printf("instr: %d files, rewrites %s\n", len(overlay), sb)
	if stats["unsupported"] > 0 {
		fatal("unsupported constructs encountered")
	}
}

func relName(fn string) string {
	if i := strings.Index(fn, "/repo/"); i >= 0 {
		return fn[i+6:]
	}
	for _, marker := range []string{"/pkg/", "/plugin/", "/coremain/"} { // a scratch checkout
		if i := strings.Index(fn, marker); i >= 0 && !strings.Contains(fn, "/pkg/mod/") {
			return fn[i+1:]
		}
	}
	if i := strings.Index(fn, "/pkg/mod/"); i >= 0 {
		return fn[i+9:]
	}
	return fn
}

type rewriter struct {
	fset     *token.FileSet
	info     *types.Info
	pkgPath  string
	base     int
	nsite    int
	sites    map[int]string
	stats    map[string]int
	src      []byte
	file     *ast.File
	fileBase string
	keep     map[string]bool
	osRoute  bool
	ntmp     int
}

func (rw *rewriter) site(n ast.Node, kind string) int {
	rw.nsite++
	id := rw.base + rw.nsite
	pos := rw.fset.Position(n.Pos())
	rw.sites[id] = fmt.Sprintf("%s:%d:%s", rw.fileBase, pos.Line, kind)
	rw.stats[kind]++
	return id
}

func (rw *rewriter) text(n ast.Node) string {
	return string(rw.src[rw.off(n.Pos()):rw.off(n.End())])
}

func (rw *rewriter) off(p token.Pos) int { return rw.fset.Position(p).Offset }

type edit struct {
	pos, end int
	text     string
}

func (rw *rewriter) renderFile(f *ast.File) string {
	edits := rw.collect(f)
	edits = append(edits, edit{rw.off(f.Name.End()), rw.off(f.Name.End()), fmt.Sprintf("; import _simrt %q", simrtPath)})
	s := rw.splice(0, len(rw.src), edits)
	s += "\n\nvar _ = _simrt.Yield\n"
	keeps := make([]string, 0)
	for k := range rw.keep {
		keeps = append(keeps, k)
	}
	sort.Strings(keeps)
	for _, k := range keeps {
		s += k + "\n"
	}
	return s
}

// collect finds the outermost rewritable descendants of n.
func (rw *rewriter) collect(n ast.Node) []edit {
	var edits []edit
	ast.Inspect(n, func(c ast.Node) bool {
		if c == nil || c == n {
			return true
		}
		if s, ok := rw.rule(c); ok {
			edits = append(edits, edit{rw.off(c.Pos()), rw.off(c.End()), s})
			return false
		}
		return true
	})
	return edits
}

func (rw *rewriter) splice(from, to int, edits []edit) string {
	sort.Slice(edits, func(i, j int) bool {
		if edits[i].pos != edits[j].pos {
			return edits[i].pos < edits[j].pos
		}
		return edits[i].end < edits[j].end
	})
	var sb strings.Builder
	p := from
	for _, e := range edits {
		if e.pos < p {
			fatal("overlapping edits in %s", rw.fileBase)
		}
		sb.Write(rw.src[p:e.pos])
		sb.WriteString(e.text)
		p = e.end
	}
	sb.Write(rw.src[p:to])
	return sb.String()
}

// render returns the (rewritten) source text of n.
func (rw *rewriter) render(n ast.Node) string {
	if s, ok := rw.rule(n); ok {
		return s
	}
	return rw.splice(rw.off(n.Pos()), rw.off(n.End()), rw.collect(n))
}

func (rw *rewriter) tmp(prefix string) string {
	rw.ntmp++
	return fmt.Sprintf("_v%s%d", prefix, rw.ntmp)
}

func deref(t types.Type) types.Type {
	if p, ok := t.Underlying().(*types.Pointer); ok {
		return p.Elem()
	}
	return t
}

func namedIs(t types.Type, pkg string, names ...string) bool {
	t = deref(t)
	n, ok := t.(*types.Named)
	if !ok {
		if a, ok2 := t.(*types.Alias); ok2 {
			return namedIs(types.Unalias(a), pkg, names...)
		}
		return false
	}
	o := n.Origin().Obj()
	if o.Pkg() == nil || o.Pkg().Path() != pkg {
		return false
	}
	if len(names) == 0 {
		return true
	}
	for _, nm := range names {
		if o.Name() == nm {
			return true
		}
	}
	return false
}

// pkgFunc reports whether call is pkg.name(...) for the given import path.
func (rw *rewriter) pkgFunc(call *ast.CallExpr, path string, names ...string) (string, bool) {
	sel, ok := call.Fun.(*ast.SelectorExpr)
	if !ok {
		return "", false
	}
	id, ok := sel.X.(*ast.Ident)
	if !ok {
		return "", false
	}
	pn, ok := rw.info.Uses[id].(*types.PkgName)
	if !ok || pn.Imported().Path() != path {
		return "", false
	}
	for _, n := range names {
		if sel.Sel.Name == n {
			return id.Name, true
		}
	}
	return "", false
}

// recvOperand returns the text of a pointer to the receiver operand of a
// method call x.M() (following embedded fields), and the receiver's named type.
func (rw *rewriter) recvOperand(selx *ast.SelectorExpr) (ptrText string, recvType types.Type, ok bool) {
	sel := rw.info.Selections[selx]
	if sel == nil || sel.Kind() != types.MethodVal {
		return "", nil, false
	}
	fn, _ := sel.Obj().(*types.Func)
	if fn == nil {
		return "", nil, false
	}
	sig := fn.Type().(*types.Signature)
	if sig.Recv() == nil {
		return "", nil, false
	}
	recvType = deref(sig.Recv().Type())
	txt := rw.render(selx.X)
	t := rw.info.TypeOf(selx.X)
	idx := sel.Index()
	for _, i := range idx[:len(idx)-1] {
		st, ok2 := deref(t).Underlying().(*types.Struct)
		if !ok2 {
			return "", nil, false
		}
		f := st.Field(i)
		txt = "(" + txt + ")." + f.Name()
		t = f.Type()
	}
	if _, isPtr := t.Underlying().(*types.Pointer); isPtr {
		return txt, recvType, true
	}
	return "&(" + txt + ")", recvType, true
}

func (rw *rewriter) args(call *ast.CallExpr) string {
	var parts []string
	for _, a := range call.Args {
		parts = append(parts, rw.render(a))
	}
	s := strings.Join(parts, ", ")
	if call.Ellipsis.IsValid() {
		s += "..."
	}
	return s
}

func (rw *rewriter) isMap(e ast.Expr) (*types.Map, bool) {
	t := rw.info.TypeOf(e)
	if t == nil {
		return nil, false
	}
	m, ok := t.Underlying().(*types.Map)
	return m, ok
}

func (rw *rewriter) isChan(e ast.Expr) bool {
	t := rw.info.TypeOf(e)
	if t == nil {
		return false
	}
	_, ok := t.Underlying().(*types.Chan)
	if !ok {
		// type parameter with chan core type: not supported
		return false
	}
	return ok
}

func simpleExpr(e ast.Expr) bool {
	switch x := e.(type) {
	case *ast.Ident:
		return true
	case *ast.SelectorExpr:
		return simpleExpr(x.X)
	case *ast.ParenExpr:
		return simpleExpr(x.X)
	case *ast.StarExpr:
		return simpleExpr(x.X)
	}
	return false
}

func (rw *rewriter) unsupported(n ast.Node, what string) {
	pos := rw.fset.Position(n.Pos())
	fmt.Fprintf(os.Stderr, "instr: unsupported %s at %s\n", what, pos)
	rw.stats["unsupported"]++
}

// rule returns the replacement text for n if n is a construct we rewrite.
func (rw *rewriter) rule(n ast.Node) (string, bool) {
	switch x := n.(type) {
	case *ast.GoStmt:
		return rw.goStmt(x), true
	case *ast.SelectStmt:
		return rw.selectStmt(x), true
	case *ast.SendStmt:
		id := rw.site(x, "send")
		return fmt.Sprintf("_simrt.Send(%d, %s, %s)", id, rw.render(x.Chan), rw.render(x.Value)), true
	case *ast.RangeStmt:
		if _, ok := rw.isMap(x.X); ok {
			return rw.rangeMap(x), true
		}
		if rw.isChan(x.X) {
			return rw.rangeChan(x), true
		}
	case *ast.AssignStmt:
		if len(x.Lhs) == 2 && len(x.Rhs) == 1 {
			if u, ok := x.Rhs[0].(*ast.UnaryExpr); ok && u.Op == token.ARROW {
				id := rw.site(x, "recv")
				return fmt.Sprintf("%s, %s %s _simrt.Recv2(%d, %s)", rw.render(x.Lhs[0]), rw.render(x.Lhs[1]), x.Tok, id, rw.render(u.X)), true
			}
		}
	case *ast.UnaryExpr:
		if x.Op == token.ARROW {
			id := rw.site(x, "recv")
			return fmt.Sprintf("_simrt.Recv(%d, %s)", id, rw.render(x.X)), true
		}
	case *ast.IndexExpr:
		if m, ok := rw.isMap(x.X); ok {
			if _, isPtr := m.Key().Underlying().(*types.Pointer); isPtr {
				rw.stats["notekey"]++
				return fmt.Sprintf("%s[_simrt.NoteKey(%s)]", rw.render(x.X), rw.render(x.Index)), true
			}
		}
	case *ast.SelectorExpr:
		// the type sync.Pool
		if id, ok := x.X.(*ast.Ident); ok {
			if pn, ok := rw.info.Uses[id].(*types.PkgName); ok && pn.Imported().Path() == "sync" && x.Sel.Name == "Pool" {
				rw.stats["syncpool"]++
				rw.keep["var _ "+id.Name+".Locker"] = true
				return "_simrt.Pool", true
			}
		}
	case *ast.CallExpr:
		return rw.callExpr(x)
	}
	return "", false
}

func (rw *rewriter) callExpr(x *ast.CallExpr) (string, bool) {
	if _, ok := rw.pkgFunc(x, "time", "Sleep"); ok {
		return fmt.Sprintf("_simrt.Sleep(%d, %s)", rw.site(x, "sleep"), rw.args(x)), true
	}
	if _, ok := rw.pkgFunc(x, "time", "NewTimer"); ok {
		rw.stats["timer"]++
		return fmt.Sprintf("_simrt.NewTimer(%s)", rw.args(x)), true
	}
	if nm, ok := rw.pkgFunc(x, "math/rand/v2", "IntN"); ok {
		return fmt.Sprintf("_simrt.RandIntN(%d, %s, %s.IntN)", rw.site(x, "rand"), rw.args(x), nm), true
	}
	if _, ok := rw.pkgFunc(x, "hash/maphash", "String"); ok {
		rw.stats["maphash"]++
		return fmt.Sprintf("_simrt.HashString(%s)", rw.args(x)), true
	}
	if _, ok := rw.pkgFunc(x, "hash/maphash", "Bytes"); ok {
		rw.stats["maphash"]++
		return fmt.Sprintf("_simrt.HashBytes(%s)", rw.args(x)), true
	}
	if rw.osRoute {
		if nm, ok := rw.pkgFunc(x, "os", "Create"); ok {
			rw.keep["var _ = "+nm+".Getpid"] = true
			return fmt.Sprintf("_simrt.OsCreate(%d, %s)", rw.site(x, "oscreate"), rw.args(x)), true
		}
		if nm, ok := rw.pkgFunc(x, "os", "Open"); ok {
			rw.keep["var _ = "+nm+".Getpid"] = true
			return fmt.Sprintf("_simrt.OsOpen(%d, %s)", rw.site(x, "osopen"), rw.args(x)), true
		}
	}
	// package-level sync/atomic functions: atomic.AddInt32(&x, 1)
	if sel, ok := x.Fun.(*ast.SelectorExpr); ok {
		if id, ok := sel.X.(*ast.Ident); ok {
			if pn, ok := rw.info.Uses[id].(*types.PkgName); ok && pn.Imported().Path() == "sync/atomic" && len(x.Args) > 0 {
				var rest []string
				for _, a := range x.Args[1:] {
					rest = append(rest, rw.render(a))
				}
				s := fmt.Sprintf("%s.%s(_simrt.YA(%d, %s)", id.Name, sel.Sel.Name, rw.site(x, "atomic"), rw.render(x.Args[0]))
				if len(rest) > 0 {
					s += ", " + strings.Join(rest, ", ")
				}
				return s + ")", true
			}
		}
	}
	selx, ok := x.Fun.(*ast.SelectorExpr)
	if !ok {
		return "", false
	}
	if rw.info.Selections[selx] == nil {
		return "", false
	}
	sel := rw.info.Selections[selx]
	fn, _ := sel.Obj().(*types.Func)
	if fn == nil || fn.Pkg() == nil {
		return "", false
	}
	sig, _ := fn.Type().(*types.Signature)
	if sig == nil || sig.Recv() == nil {
		return "", false
	}
	rt := deref(sig.Recv().Type())
	m := selx.Sel.Name
	switch {
	case namedIs(rt, "sync", "Mutex", "RWMutex"):
		isRW := namedIs(rt, "sync", "RWMutex")
		var fnName string
		switch m {
		case "Lock":
			fnName = "Lock"
		case "Unlock":
			fnName = "Unlock"
		case "RLock":
			fnName = "RLock"
		case "RUnlock":
			fnName = "RUnlock"
		default:
			return "", false
		}
		_ = isRW
		p, _, ok := rw.recvOperand(selx)
		if !ok {
			rw.unsupported(x, "mutex call")
			return "", false
		}
		return fmt.Sprintf("_simrt.%s(%d, %s)", fnName, rw.site(x, strings.ToLower(fnName)), p), true
	case namedIs(rt, "sync", "WaitGroup") && (m == "Add" || m == "Done"):
		p, _, ok := rw.recvOperand(selx)
		if !ok {
			rw.unsupported(x, "wg.Add/Done")
			return "", false
		}
		return fmt.Sprintf("_simrt.YA(%d, %s).%s(%s)", rw.site(x, "wg"+strings.ToLower(m)), p, m, rw.args(x)), true
	case namedIs(rt, "sync", "WaitGroup") && m == "Wait":
		p, _, ok := rw.recvOperand(selx)
		if !ok {
			rw.unsupported(x, "wg.Wait")
			return "", false
		}
		return fmt.Sprintf("_simrt.WaitGroupWait(%d, %s)", rw.site(x, "wgwait"), p), true
	case namedIs(rt, "sync", "Once") && m == "Do":
		p, _, ok := rw.recvOperand(selx)
		if !ok {
			rw.unsupported(x, "once.Do")
			return "", false
		}
		return fmt.Sprintf("_simrt.OnceDo(%d, %s, %s)", rw.site(x, "once"), p, rw.args(x)), true
	case namedIs(rt, "sync", "Cond"):
		rw.unsupported(x, "sync.Cond")
		return "", false
	case namedIs(rt, "sync/atomic"):
		p, _, ok := rw.recvOperand(selx)
		if !ok {
			rw.unsupported(x, "atomic call")
			return "", false
		}
		return fmt.Sprintf("_simrt.YA(%d, %s).%s(%s)", rw.site(x, "atomic"), p, m, rw.args(x)), true
	case namedIs(rt, "time", "Timer") && (m == "Stop" || m == "Reset"):
		p, _, ok := rw.recvOperand(selx)
		if !ok {
			rw.unsupported(x, "timer call")
			return "", false
		}
		rw.stats["timer"]++
		if m == "Stop" {
			return fmt.Sprintf("_simrt.TimerStop(%s)", p), true
		}
		return fmt.Sprintf("_simrt.TimerReset(%s, %s)", p, rw.args(x)), true
	case namedIs(rt, "net", "Dialer") && m == "DialContext":
		p, _, ok := rw.recvOperand(selx)
		if !ok {
			rw.unsupported(x, "dialer")
			return "", false
		}
		return fmt.Sprintf("_simrt.DialContext(%d, %s, %s)", rw.site(x, "dial"), p, rw.args(x)), true
	}
	return "", false
}

func (rw *rewriter) goStmt(g *ast.GoStmt) string {
	id := rw.site(g, "go")
	call := g.Call
	if fl, ok := call.Fun.(*ast.FuncLit); ok && len(call.Args) == 0 {
		return fmt.Sprintf("_simrt.Go(%d, %s)", id, rw.render(fl))
	}
	var sb strings.Builder
	sb.WriteString("{ ")
	fv := rw.tmp("f")
	if fid, ok := call.Fun.(*ast.Ident); ok {
		if _, isBuiltin := rw.info.Uses[fid].(*types.Builtin); isBuiltin {
			fv = fid.Name
		}
	}
	if fv != rw.text(call.Fun) {
		fmt.Fprintf(&sb, "%s := %s; ", fv, rw.render(call.Fun))
	}
	var args []string
	for _, a := range call.Args {
		tv := rw.info.Types[a]
		if tv.Value != nil || tv.IsNil() {
			args = append(args, rw.render(a))
			continue
		}
		av := rw.tmp("a")
		fmt.Fprintf(&sb, "%s := %s; ", av, rw.render(a))
		args = append(args, av)
	}
	al := strings.Join(args, ", ")
	if call.Ellipsis.IsValid() {
		al += "..."
	}
	fmt.Fprintf(&sb, "_simrt.Go(%d, func() { %s(%s) }) }", id, fv, al)
	return sb.String()
}

func (rw *rewriter) bodyText(list []ast.Stmt) string {
	var sb strings.Builder
	for _, s := range list {
		sb.WriteString(rw.render(s))
		sb.WriteString("\n")
	}
	return sb.String()
}

func (rw *rewriter) selectStmt(s *ast.SelectStmt) string {
	id := rw.site(s, "select")
	if len(s.Body.List) == 0 {
		return fmt.Sprintf("_simrt.BlockForever(%d)", id)
	}
	var pre, cases, bodies strings.Builder
	hasDefault := false
	idx := 0
	for _, cs := range s.Body.List {
		cc := cs.(*ast.CommClause)
		if cc.Comm == nil {
			hasDefault = true
			fmt.Fprintf(&bodies, "default:\n%s", rw.bodyText(cc.Body))
			continue
		}
		cv := rw.tmp("c")
		switch c := cc.Comm.(type) {
		case *ast.SendStmt:
			xv := rw.tmp("x")
			fmt.Fprintf(&pre, "%s := %s; %s := _simrt.ElemW(%s); %s = %s\n", cv, rw.render(c.Chan), xv, cv, xv, rw.render(c.Value))
			fmt.Fprintf(&cases, ", _simrt.W(%s, &%s)", cv, xv)
			fmt.Fprintf(&bodies, "case %d:\n%s", idx, rw.bodyText(cc.Body))
		case *ast.ExprStmt:
			u, ok := c.X.(*ast.UnaryExpr)
			if !ok || u.Op != token.ARROW {
				rw.unsupported(c, "select comm")
				return rw.text(s)
			}
			fmt.Fprintf(&pre, "%s := %s\n", cv, rw.render(u.X))
			fmt.Fprintf(&cases, ", _simrt.R(%s, nil, nil)", cv)
			fmt.Fprintf(&bodies, "case %d:\n%s", idx, rw.bodyText(cc.Body))
		case *ast.AssignStmt:
			u, ok := c.Rhs[0].(*ast.UnaryExpr)
			if !ok || u.Op != token.ARROW || len(c.Rhs) != 1 {
				rw.unsupported(c, "select comm")
				return rw.text(s)
			}
			rv, kv := rw.tmp("r"), rw.tmp("k")
			fmt.Fprintf(&pre, "%s := %s; %s := _simrt.Elem(%s); %s := false; _ = %s\n", cv, rw.render(u.X), rv, cv, kv, kv)
			fmt.Fprintf(&cases, ", _simrt.R(%s, &%s, &%s)", cv, rv, kv)
			fmt.Fprintf(&bodies, "case %d:\n", idx)
			lhs0 := rw.render(c.Lhs[0])
			if len(c.Lhs) == 2 {
				lhs1 := rw.render(c.Lhs[1])
				if c.Tok == token.DEFINE && lhs0 == "_" && lhs1 == "_" {
					// nothing
				} else {
					fmt.Fprintf(&bodies, "%s, %s %s %s, %s\n", lhs0, lhs1, c.Tok, rv, kv)
				}
			} else if !(c.Tok == token.DEFINE && lhs0 == "_") {
				fmt.Fprintf(&bodies, "%s %s %s\n", lhs0, c.Tok, rv)
			}
			bodies.WriteString(rw.bodyText(cc.Body))
		default:
			rw.unsupported(cc, "select comm")
			return rw.text(s)
		}
		idx++
	}
	if !hasDefault {
		bodies.WriteString("default:\npanic(\"simrt: bad select index\")\n")
	}
	return fmt.Sprintf("{\n%sswitch _simrt.Select(%d, %v%s) {\n%s}\n}", pre.String(), id, hasDefault, cases.String(), bodies.String())
}

func (rw *rewriter) rangeMap(r *ast.RangeStmt) string {
	id := rw.site(r, "rangemap")
	if !simpleExpr(r.X) {
		rw.unsupported(r, "range over non-simple map expression")
		return rw.text(r)
	}
	mx := rw.render(r.X)
	kv := rw.tmp("k")
	var inj strings.Builder
	keyName, valName := "", ""
	if r.Key != nil {
		keyName = rw.render(r.Key)
	}
	if r.Value != nil {
		valName = rw.render(r.Value)
	}
	tok := r.Tok.String()
	if r.Tok == token.ILLEGAL {
		tok = ":="
	}
	if keyName != "" && keyName != "_" {
		fmt.Fprintf(&inj, "%s %s %s; ", keyName, tok, kv)
	}
	ok := rw.tmp("o")
	if valName != "" && valName != "_" {
		if r.Tok == token.DEFINE {
			fmt.Fprintf(&inj, "%s, %s := %s[%s]; if !%s { continue }; ", valName, ok, mx, kv, ok)
		} else {
			fmt.Fprintf(&inj, "var %s bool; %s, %s = %s[%s]; if !%s { continue }; ", ok, valName, ok, mx, kv, ok)
		}
	} else {
		fmt.Fprintf(&inj, "if _, %s := %s[%s]; !%s { continue }; ", ok, mx, kv, ok)
	}
	body := rw.render(r.Body)
	return fmt.Sprintf("for _, %s := range _simrt.RangeKeys(%d, %s) { %s\n%s", kv, id, mx, inj.String(), body[1:])
}

func (rw *rewriter) rangeChan(r *ast.RangeStmt) string {
	id := rw.site(r, "rangechan")
	if !simpleExpr(r.X) {
		rw.unsupported(r, "range over non-simple chan expression")
		return rw.text(r)
	}
	cx := rw.render(r.X)
	ok := rw.tmp("o")
	v := rw.tmp("e")
	var inj string
	if r.Key != nil && rw.render(r.Key) != "_" {
		tok := r.Tok.String()
		inj = fmt.Sprintf("%s %s %s; ", rw.render(r.Key), tok, v)
	}
	body := rw.render(r.Body)
	return fmt.Sprintf("for { %s, %s := _simrt.Recv2(%d, %s); if !%s { break }; _ = %s; %s\n%s", v, ok, id, cx, ok, v, inj, body[1:])
}
