// Package simdisk is an in-memory file system for the cache dump file: every
// write is a scheduled step and is recorded, so the harness can cut the file at
// any crash point, make the disk fill up, or corrupt stored bytes.
package simdisk

import (
	"errors"
	"io"
	"io/fs"

	"verif/sim/simrt"
)

var (
	siteWrite = simrt.HarnessSite("simdisk.Write")
	siteRead  = simrt.HarnessSite("simdisk.Read")
	siteOpen  = simrt.HarnessSite("simdisk.Open")
)

var ErrNoSpace = errors.New("simdisk: no space left on device")

type Disk struct {
	Files map[string][]byte
	// Limit: total bytes a file may hold (0 = unlimited); the write crossing it fails.
	Limit int
	// Writes counts Write calls per file name.
	Writes map[string]int
	Creates map[string]int
	// CrashAfterWrites: after this many Write calls on a file (0 = never) further
	// writes are silently lost (the process "crashed"; the handle keeps working).
	CrashAfterWrites int
	// Frozen: the machine is "down": Create and Write are accepted and discarded.
	Frozen bool
}

func New() *Disk {
	return &Disk{Files: map[string][]byte{}, Writes: map[string]int{}, Creates: map[string]int{}}
}

type handle struct {
	d    *Disk
	name string
	rd   bool
	pos  int
	closed bool
}

// Create truncates (os.Create semantics) and opens for writing.
func (d *Disk) Create(name string) (simrt.File, error) {
	simrt.Yield(siteOpen)
	if d.Frozen {
		return &handle{d: d, name: name}, nil
	}
	d.Files[name] = []byte{}
	d.Creates[name]++
	return &handle{d: d, name: name}, nil
}

func (d *Disk) Open(name string) (simrt.File, error) {
	simrt.Yield(siteOpen)
	if _, ok := d.Files[name]; !ok {
		return nil, &fs.PathError{Op: "open", Path: name, Err: fs.ErrNotExist}
	}
	return &handle{d: d, name: name, rd: true}, nil
}

func (h *handle) Write(p []byte) (int, error) {
	simrt.Yield(siteWrite)
	if h.closed || h.rd {
		return 0, fs.ErrClosed
	}
	d := h.d
	if d.Frozen {
		return len(p), nil
	}
	d.Writes[h.name]++
	if d.CrashAfterWrites > 0 && d.Writes[h.name] > d.CrashAfterWrites {
		simrt.Fault("disk_write_lost_after_crash")
		return len(p), nil
	}
	cur := d.Files[h.name]
	if d.Limit > 0 && len(cur)+len(p) > d.Limit {
		n := d.Limit - len(cur)
		if n < 0 {
			n = 0
		}
		d.Files[h.name] = append(cur, p[:n]...)
		simrt.Fault("disk_full")
		return n, ErrNoSpace
	}
	d.Files[h.name] = append(cur, p...)
	return len(p), nil
}

func (h *handle) Read(p []byte) (int, error) {
	simrt.Yield(siteRead)
	data := h.d.Files[h.name]
	if h.pos >= len(data) {
		return 0, io.EOF
	}
	n := copy(p, data[h.pos:])
	h.pos += n
	return n, nil
}

func (h *handle) Close() error {
	h.closed = true
	return nil
}
