package simrt

// Rand is the single source of every choice of a run. It either draws from a
// splitmix64/xoshiro256** stream (recording each draw in the choice log) or
// replays a forced choice log.
type Rand struct {
	s      [4]uint64
	Log    []uint32 // every value returned, in order
	forced []uint32
	pos    int
	replay bool
	// Overflow: more choices were drawn than the log can hold (the run cannot be replayed from its log).
	Overflow bool
}

const maxChoices = 1 << 20

var logBuf = make([]uint32, 0, maxChoices)

func splitmix(x *uint64) uint64 {
	*x += 0x9e3779b97f4a7c15
	z := *x
	z = (z ^ (z >> 30)) * 0xbf58476d1ce4e5b9
	z = (z ^ (z >> 27)) * 0x94d049bb133111eb
	return z ^ (z >> 31)
}

//go:norace
func NewRand(seed uint64) *Rand {
	r := &Rand{Log: logBuf[:0]}
	x := seed
	for i := range r.s {
		r.s[i] = splitmix(&x)
	}
	return r
}

// NewReplay forces the given choices; when they run out every choice is 0.
//
//go:norace
func NewReplay(choices []uint32) *Rand {
	return &Rand{forced: choices, replay: true, Log: logBuf[:0]}
}

func rotl(x uint64, k uint) uint64 { return (x << k) | (x >> (64 - k)) }

//go:norace
func (r *Rand) next() uint64 {
	s := &r.s
	res := rotl(s[1]*5, 7) * 9
	t := s[1] << 17
	s[2] ^= s[0]
	s[3] ^= s[1]
	s[1] ^= s[2]
	s[0] ^= s[3]
	s[2] ^= t
	s[3] = rotl(s[3], 45)
	return res
}

// Choose returns a value in [0,n). n<=1 returns 0 without consuming a choice.
//
//go:norace
func (r *Rand) Choose(n int) int {
	if n <= 1 {
		return 0
	}
	var v uint32
	if r.replay {
		if r.pos < len(r.forced) {
			v = r.forced[r.pos] % uint32(n)
		}
		r.pos++
	} else {
		v = uint32(r.next()>>33) % uint32(n)
	}
	if len(r.Log) < cap(r.Log) {
		r.Log = append(r.Log, v) // capacity pre-allocated: slice growth has race hooks
	} else {
		r.Overflow = true
	}
	return int(v)
}

// Bool returns true with probability 1/n... i.e. Choose(n)==0.
//
//go:norace
func (r *Rand) OneIn(n int) bool { return r.Choose(n) == 0 }

// Pick chooses an element index using integer weights.
//
//go:norace
func (r *Rand) Weighted(w ...int) int {
	tot := 0
	for _, x := range w {
		tot += x
	}
	v := r.Choose(tot)
	for i, x := range w {
		if v < x {
			return i
		}
		v -= x
	}
	return len(w) - 1
}

// Perm returns a permutation of 0..n-1.
//
//go:norace
func (r *Rand) Perm(n int) []int {
	p := make([]int, n)
	for i := range p {
		p[i] = i
	}
	for i := n - 1; i > 0; i-- {
		j := r.Choose(i + 1)
		p[i], p[j] = p[j], p[i]
	}
	return p
}

// Choose draws from the active simulation's stream.
//
//go:norace
func Choose(n int) int {
	return S.rng.Choose(n)
}

//go:norace
func OneIn(n int) bool { return S.rng.Choose(n) == 0 }

// RandIntN replaces math/rand/v2.IntN in instrumented code.
//
//go:norace
func RandIntN(site int, n int, real func(int) int) int {
	if S == nil {
		return real(n)
	}
	return S.rng.Choose(n)
}
