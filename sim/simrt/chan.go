package simrt

import (
	"reflect"
)

// SelCase is one case of an instrumented select statement.
type SelCase struct {
	dir  reflect.SelectDir
	ch   reflect.Value
	send reflect.Value
	dst  reflect.Value
	ok   *bool
}

// R builds a receive case. dst (pointer to the element type) and ok may be nil.
func R(ch any, dst any, ok *bool) SelCase {
	c := SelCase{dir: reflect.SelectRecv, ch: reflect.ValueOf(ch), ok: ok}
	if dst != nil {
		c.dst = reflect.ValueOf(dst).Elem()
	}
	return c
}

// W builds a send case; valptr points to the value to send.
func W(ch any, valptr any) SelCase {
	return SelCase{dir: reflect.SelectSend, ch: reflect.ValueOf(ch), send: reflect.ValueOf(valptr).Elem()}
}

// Elem returns the zero value of a channel's element type (used to declare
// receive temporaries without spelling the type).
func Elem[T any](ch <-chan T) (z T) { return }

func (c *SelCase) rcase() reflect.SelectCase {
	if !c.ch.IsValid() || c.ch.IsNil() {
		// nil channel: never ready
		return reflect.SelectCase{Dir: reflect.SelectRecv}
	}
	if c.dir == reflect.SelectSend {
		return reflect.SelectCase{Dir: reflect.SelectSend, Chan: c.ch, Send: c.send}
	}
	return reflect.SelectCase{Dir: reflect.SelectRecv, Chan: c.ch}
}

func (c *SelCase) deliver(rv reflect.Value, ok bool) {
	if c.dir != reflect.SelectRecv {
		return
	}
	if c.dst.IsValid() && rv.IsValid() {
		c.dst.Set(rv)
	}
	if c.ok != nil {
		*c.ok = ok
	}
}

var defaultCase = reflect.SelectCase{Dir: reflect.SelectDefault}

// Select executes an instrumented select statement and returns the index of
// the chosen case, or -1 for default.
func Select(site int, hasDefault bool, cases ...SelCase) int {
	t := cur()
	if t == nil {
		rc := make([]reflect.SelectCase, 0, len(cases)+1)
		for i := range cases {
			rc = append(rc, cases[i].rcase())
		}
		if hasDefault {
			rc = append(rc, defaultCase)
		}
		i, rv, ok := reflect.Select(rc)
		if i == len(cases) {
			return -1
		}
		cases[i].deliver(rv, ok)
		return i
	}
	t.park(site, tsParked)
	n := len(cases)
	if n > 0 {
		// Poll the cases in a cyclic order starting at a PRNG-chosen index:
		// whichever ready case comes first is taken, so every ready case can win.
		start := 0
		if n > 1 {
			start = Choose(n)
		}
		var two [2]reflect.SelectCase
		two[1] = defaultCase
		for k := 0; k < n; k++ {
			i := (start + k) % n
			two[0] = cases[i].rcase()
			if !two[0].Chan.IsValid() {
				continue
			}
			j, rv, ok := reflect.Select(two[:])
			if j == 0 {
				cases[i].deliver(rv, ok)
				return i
			}
		}
	}
	if hasDefault {
		return -1
	}
	rc := make([]reflect.SelectCase, n)
	for i := range cases {
		rc[i] = cases[i].rcase()
	}
	setBlocked(t, site)
	i, rv, ok := reflect.Select(rc)
	t.afterNative(site)
	cases[i].deliver(rv, ok)
	return i
}

//go:norace
func setBlocked(t *Task, site int) {
	t.site = site
	t.state = tsBlocked
}

// Recv is <-ch.
func Recv[T any](site int, ch <-chan T) T {
	v, _ := Recv2(site, ch)
	return v
}

// Recv2 is v, ok := <-ch.
func Recv2[T any](site int, ch <-chan T) (T, bool) {
	t := cur()
	if t == nil {
		v, ok := <-ch
		return v, ok
	}
	t.park(site, tsParked)
	select {
	case v, ok := <-ch:
		return v, ok
	default:
	}
	setBlocked(t, site)
	v, ok := <-ch
	t.afterNative(site)
	return v, ok
}

// Send is ch <- v.
func Send[T any](site int, ch chan<- T, v T) {
	t := cur()
	if t == nil {
		ch <- v
		return
	}
	t.park(site, tsParked)
	select {
	case ch <- v:
		return
	default:
	}
	setBlocked(t, site)
	ch <- v
	t.afterNative(site)
}

// BlockForever is select {}.
func BlockForever(site int) {
	t := cur()
	if t == nil {
		select {}
	}
	setBlocked(t, site)
	select {}
}

// ElemW is Elem for the send direction.
func ElemW[T any](ch chan<- T) (z T) { return }
