package simrt

// Pool replaces sync.Pool in instrumented code. Inside a simulation it is a
// per-run free list whose hit/miss is decided by the PRNG; outside it never
// retains anything (a legal sync.Pool behaviour), so nothing crosses bubbles.
type Pool struct {
	New func() any
}

//go:norace
func (p *Pool) Get() any {
	if S != nil && cur() != nil {
		l := S.pools[p]
		if n := len(l); n > 0 && Choose(2) == 0 {
			i := 0
			if n > 1 {
				i = Choose(n)
			}
			x := l[i]
			l[i] = l[n-1]
			S.pools[p] = l[:n-1]
			return x
		}
	}
	if p.New != nil {
		return p.New()
	}
	return nil
}

//go:norace
func (p *Pool) Put(x any) {
	if S != nil && cur() != nil {
		if len(S.pools[p]) < 8 {
			S.pools[p] = append(S.pools[p], x)
		}
	}
}
