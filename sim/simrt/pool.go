package simrt

// Pool replaces sync.Pool in instrumented code. Inside a simulation it is a
// per-run free list whose hit/miss is decided by the PRNG; outside it never
// retains anything (a legal sync.Pool behaviour), so nothing crosses bubbles.
type Pool struct {
	New func() any
}

//go:norace
func poolOf(p *Pool) *poolEntry {
	for i := 0; i < S.npools; i++ {
		if S.pools[i].p == p {
			return &S.pools[i]
		}
	}
	if S.npools >= maxPools {
		return nil
	}
	S.pools[S.npools].p = p
	S.npools++
	return &S.pools[S.npools-1]
}

//go:norace
func (p *Pool) Get() any {
	if S != nil && cur() != nil {
		if e := poolOf(p); e != nil && e.n > 0 && Choose(2) == 0 {
			i := 0
			if e.n > 1 {
				i = Choose(e.n)
			}
			x := e.items[i]
			e.items[i] = e.items[e.n-1]
			e.items[e.n-1] = nil
			e.n--
			return x
		}
	}
	if p.New != nil {
		return p.New()
	}
	return nil
}

//go:norace
func (p *Pool) Put(x any) {
	if S != nil && cur() != nil {
		if e := poolOf(p); e != nil && e.n < len(e.items) {
			e.items[e.n] = x
			e.n++
		}
	}
}
