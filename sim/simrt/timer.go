package simrt

import (
	"sync/atomic"
	"time"
	"unsafe"
)

// Timers with the channel semantics of Go < 1.23.
//
// mosdns' go.mod says "go 1.22.0", so a real mosdns binary runs with
// asynctimerchan=1: a time.Timer's channel is buffered (capacity 1), an expired
// timer leaves its tick in the channel, and Stop/Reset do NOT remove it - the
// "if !t.Stop() { drain }" idiom in pkg/pool/timer.go exists for exactly that.
// A synctest bubble only offers the Go 1.23 semantics (unbuffered channel, no
// stale tick after Stop/Reset). When Config.OldTimers is set, time.NewTimer,
// (*time.Timer).Stop and (*time.Timer).Reset in instrumented packages are routed
// here and behave like Go 1.22; the tick itself is still delivered by the
// bubble's virtual clock (time.AfterFunc).

type oldTimer struct {
	t      time.Timer // must be the first field: *time.Timer <-> *oldTimer
	ch     chan time.Time
	af     *time.Timer
	active atomic.Bool
	gen    atomic.Uint64
}

//go:norace
func NewTimer(d time.Duration) *time.Timer {
	if S == nil || !S.cfg.OldTimers {
		return time.NewTimer(d)
	}
	ot := &oldTimer{ch: make(chan time.Time, 1)}
	ot.t.C = ot.ch
	ot.arm(d)
	return &ot.t
}

func (ot *oldTimer) arm(d time.Duration) {
	g := ot.gen.Add(1)
	ot.active.Store(true)
	ot.af = time.AfterFunc(d, func() {
		if ot.gen.Load() != g {
			return
		}
		ot.active.Store(false)
		select {
		case ot.ch <- time.Now():
		default:
		}
	})
}

func asOld(t *time.Timer) *oldTimer {
	if t != nil && t.C != nil && cap(t.C) == 1 {
		return (*oldTimer)(unsafe.Pointer(t))
	}
	return nil
}

// TimerStop replaces t.Stop(): true if the call stopped an active timer; a tick
// that was already delivered stays in the channel.
func TimerStop(t *time.Timer) bool {
	ot := asOld(t)
	if ot == nil {
		return t.Stop()
	}
	was := ot.active.Swap(false)
	ot.gen.Add(1)
	ot.af.Stop()
	return was
}

// TimerReset replaces t.Reset(d): re-arms without draining the channel.
func TimerReset(t *time.Timer, d time.Duration) bool {
	ot := asOld(t)
	if ot == nil {
		return t.Reset(d)
	}
	was := ot.active.Swap(false)
	ot.af.Stop()
	ot.arm(d)
	return was
}
