package simrt

import (
	"context"
	"hash/maphash"
	"io"
	"net"
	"os"
	"sort"
	"sync"
)

// DialHook, when set, replaces (*net.Dialer).DialContext in instrumented code.
var DialHook func(ctx context.Context, network, addr string) (net.Conn, error)

func DialContext(site int, d *net.Dialer, ctx context.Context, network, addr string) (net.Conn, error) {
	if h := DialHook; h != nil {
		return h(ctx, network, addr)
	}
	return d.DialContext(ctx, network, addr)
}

// File is what instrumented code gets from os.Create / os.Open.
type File interface {
	io.Reader
	io.Writer
	io.Closer
}

var CreateHook func(name string) (File, error)
var OpenHook func(name string) (File, error)

func OsCreate(site int, name string) (File, error) {
	if h := CreateHook; h != nil {
		return h(name)
	}
	f, err := os.Create(name)
	if err != nil {
		return nil, err
	}
	return f, nil
}

func OsOpen(site int, name string) (File, error) {
	if h := OpenHook; h != nil {
		return h(name)
	}
	f, err := os.Open(name)
	if err != nil {
		return nil, err
	}
	return f, nil
}

// HashString / HashBytes replace maphash.String / maphash.Bytes: FNV-1a mixed
// with a per-run salt drawn from the PRNG.
//
//go:norace
func HashString(seed maphash.Seed, s string) uint64 {
	if S == nil {
		return maphash.String(seed, s)
	}
	h := uint64(14695981039346656037) ^ S.HashSalt
	for i := 0; i < len(s); i++ {
		h = (h ^ uint64(s[i])) * 1099511628211
	}
	h ^= h >> 29
	return h
}

//go:norace
func HashBytes(seed maphash.Seed, b []byte) uint64 {
	return HashString(seed, string(b))
}

var (
	siteMu    sync.Mutex
	siteNames = map[int]string{}
)

// RegisterSites is called from generated init functions.
func RegisterSites(m map[int]string) {
	siteMu.Lock()
	for k, v := range m {
		siteNames[k] = v
	}
	siteMu.Unlock()
}

//go:norace
func SiteName(site int) string {
	if site == 0 {
		return "harness"
	}
	if n, ok := siteNames[site]; ok {
		return n
	}
	return "site#" + itoa(site)
}

func itoa(i int) string {
	if i == 0 {
		return "0"
	}
	neg := i < 0
	if neg {
		i = -i
	}
	var b [24]byte
	p := len(b)
	for i > 0 {
		p--
		b[p] = byte('0' + i%10)
		i /= 10
	}
	if neg {
		p--
		b[p] = '-'
	}
	return string(b[p:])
}

// HarnessSite registers a named harness site (ids are negative).
func HarnessSite(name string) int {
	siteMu.Lock()
	defer siteMu.Unlock()
	for k, v := range siteNames {
		if v == name && k < 0 {
			return k
		}
	}
	id := -1 - countNeg()
	siteNames[id] = name
	return id
}

func countNeg() int {
	n := 0
	for k := range siteNames {
		if k < 0 {
			n++
		}
	}
	return n
}

// AllSites returns the registered instrumented sites, sorted.
func AllSites() []int {
	siteMu.Lock()
	defer siteMu.Unlock()
	r := make([]int, 0, len(siteNames))
	for k := range siteNames {
		r = append(r, k)
	}
	sort.Ints(r)
	return r
}
