package simrt

import (
	"fmt"
	"reflect"
	"sort"
)

// NoteKey records the first-insertion order of a pointer map key so that
// RangeKeys can order such keys deterministically (every insertion and lookup
// of a pointer-keyed map is routed through it by the instrumenter).
//
//go:norace
func NoteKey[K comparable](k K) K {
	if S != nil {
		ptrOrd(any(k))
	}
	return k
}

//go:norace
func ptrOrd(k any) int {
	for i := 0; i < S.nptr; i++ {
		if S.ptrKeys[i] == k {
			return i
		}
	}
	if S.nptr >= maxPtrKeys {
		panic("simrt: too many pointer map keys")
	}
	S.ptrKeys[S.nptr] = k
	S.nptr++
	return S.nptr - 1
}

// RangeKeys returns the keys of m in an order chosen by the PRNG: canonical
// order, rotated by a drawn offset and optionally reversed. Outside a
// simulation the runtime's own (random) order is used.
func RangeKeys[K comparable, V any](site int, m map[K]V) []K {
	keys := make([]K, 0, len(m))
	for k := range m {
		keys = append(keys, k)
	}
	if cur() == nil || len(keys) < 2 {
		return keys
	}
	sortKeys(keys)
	n := len(keys)
	off := Choose(n)
	rev := Choose(2) == 1
	out := make([]K, n)
	for i := 0; i < n; i++ {
		j := (off + i) % n
		if rev {
			j = (off - i + n) % n
		}
		out[i] = keys[j]
	}
	return out
}

func sortKeys[K comparable](keys []K) {
	if len(keys) == 0 {
		return
	}
	switch reflect.TypeOf(keys[0]).Kind() {
	case reflect.String:
		sort.Slice(keys, func(i, j int) bool {
			return reflect.ValueOf(keys[i]).String() < reflect.ValueOf(keys[j]).String()
		})
	case reflect.Int, reflect.Int8, reflect.Int16, reflect.Int32, reflect.Int64:
		sort.Slice(keys, func(i, j int) bool {
			return reflect.ValueOf(keys[i]).Int() < reflect.ValueOf(keys[j]).Int()
		})
	case reflect.Uint, reflect.Uint8, reflect.Uint16, reflect.Uint32, reflect.Uint64, reflect.Uintptr:
		sort.Slice(keys, func(i, j int) bool {
			return reflect.ValueOf(keys[i]).Uint() < reflect.ValueOf(keys[j]).Uint()
		})
	case reflect.Pointer, reflect.Chan, reflect.UnsafePointer:
		ord := make(map[any]int, len(keys))
		for _, k := range keys {
			ord[any(k)] = ptrOrd(any(k))
		}
		sort.Slice(keys, func(i, j int) bool { return ord[any(keys[i])] < ord[any(keys[j])] })
	default:
		sort.Slice(keys, func(i, j int) bool {
			return fmt.Sprintf("%#v", keys[i]) < fmt.Sprintf("%#v", keys[j])
		})
	}
}
