// Package simrt is the deterministic-simulation runtime: a cooperative,
// PRNG-driven scheduler for goroutines of instrumented code running inside one
// testing/synctest bubble (virtual clock).
//
// Rules that keep it deterministic and invisible to the race detector:
//   - exactly one task runs at a time; a task gives up control only by parking
//     on its private sync.Cond (whose Locker is a no-op) or by blocking natively
//     (channel op, reflect.Select, WaitGroup.Wait, time.Sleep);
//   - a task woken from a native block executes nothing but "park";
//   - the scheduler looks at task state only after synctest.Wait() returned;
//   - every function that touches scheduler state is //go:norace, so the only
//     happens-before edges the race detector sees are the program's own.
package simrt

import (
	"fmt"
	"os"
	"sync"
	"testing/synctest"
	"time"
)

const (
	maxOnces    = 4096
	maxPtrKeys  = 8192
	maxPools    = 16
	maxCounters = 96
	maxTasks    = 8192
)

type counter struct {
	name string
	n    int
}

type onceEntry struct {
	o  *sync.Once
	st onceState
}

type poolEntry struct {
	p     *Pool
	items [8]any
	n     int
}

type noLock struct{}

func (noLock) Lock()   {}
func (noLock) Unlock() {}

const (
	tsNew = iota
	tsRunning
	tsParked   // parked at a yield point, runnable
	tsLockWait // parked, waiting for a lock/once; runnable when unlockGen moved
	tsBlocked  // blocked in a native operation
	tsDone
)

var stateName = [...]string{"new", "running", "parked", "lockwait", "blocked", "done"}

// Task is one simulated goroutine.
type Task struct {
	ID       int
	Name     string
	Parent   int
	GoSite   int
	state    int
	site     int
	wake     bool
	cond     *sync.Cond
	lockGen  uint64
	prio     int // PCT priority
	panicVal any
	Daemon   bool // harness helper; not counted as a leak
	ExitAt   time.Duration
}

func (t *Task) Site() int     { return t.site }
func (t *Task) State() string { return stateName[t.state] }

// Strategy of the scheduler for one run.
type Strategy int

const (
	StratUniform Strategy = iota // pick uniformly among runnable at each park
	StratSticky                  // keep running task with prob (1-1/k), else uniform
	StratPCT                     // priorities + d random change points
	StratRR                      // round robin
)

// Config of one run.
type Config struct {
	Strategy   Strategy
	StickyK    int           // for StratSticky: switch with probability 1/StickyK
	PCTDepth   int           // number of priority change points
	PCTSteps   int           // horizon for change points
	MaxSteps   int           // step cap
	IdleCap    time.Duration // virtual time after which an all-blocked system is declared stuck
	StallProb  int           // 1/StallProb: at an idle->timer transition hold a runnable task (0 = off)
	TraceLimit int
	// OldTimers: time.Timer values created by instrumented code have the Go < 1.23
	// channel semantics that mosdns' go.mod (go 1.22.0) selects in a real build.
	OldTimers bool
}

// Step is one scheduling decision.
type Step struct {
	Task int
	Site int
	N    int // number of runnable tasks at the decision
}

// End describes how a run ended.
type End int

const (
	EndClean    End = iota // all tasks finished
	EndStuck               // tasks blocked forever (no timer can wake them)
	EndDeadlock            // tasks wait for locks nobody will release
	EndStepCap             // step cap hit
	EndPanic               // a task panicked
	EndAbort               // harness asked to stop (violation found)
)

var endName = [...]string{"clean", "stuck", "deadlock", "stepcap", "panic", "abort"}

func (e End) String() string { return endName[e] }

// Sim is one simulated run.
type Sim struct {
	cfg     Config
	rng     *Rand
	tasks   []*Task
	running *Task
	wakeCh  chan struct{}

	unlockGen uint64
	onces     [maxOnces]onceEntry
	nonces    int

	steps     int
	trace     []Step
	traceHash uint64
	schedHash uint64 // over decisions with N >= 2
	contended int    // decisions with N >= 2
	switches  int    // decisions that changed the running task
	lastTask  int
	edges     map[uint64]struct{} // (siteFrom, siteTo) at context switches

	pctChange map[int]bool
	rrNext    int

	start    time.Time
	end      End
	endMsg   string
	abort    bool
	abortMsg string

	// Fixed-size tables: map operations and slice growth carry race-detector
	// hooks of their own (even inside //go:norace functions), so scheduler state
	// touched by tasks lives in pre-allocated arrays.
	ptrKeys  [maxPtrKeys]any // first-insertion order for pointer map keys
	nptr     int
	pools    [maxPools]poolEntry
	npools   int
	probes   [maxCounters]counter
	nprobes  int
	faults   [maxCounters]counter
	nfaults  int
	HashSalt uint64
	tick     int64
	noYieldAfterUnlock bool
}

// S is the active simulation, nil outside a run (pass-through mode).
var S *Sim

//go:norace
func cur() *Task {
	if S == nil {
		return nil
	}
	return S.running
}

// Active reports whether a simulation is running and the caller is a task.
//
//go:norace
func Active() bool { return cur() != nil }

// Now returns virtual time elapsed since the start of the run.
//
//go:norace
func (s *Sim) Elapsed() time.Duration { return time.Since(s.start) }

//go:norace
func (s *Sim) Steps() int { return s.steps }

//go:norace
func (s *Sim) Trace() []Step { return s.trace }

//go:norace
func (s *Sim) TraceHash() uint64 { return s.traceHash }

//go:norace
func (s *Sim) SchedHash() uint64 { return s.schedHash }

//go:norace
func (s *Sim) Contended() int { return s.contended }

//go:norace
func (s *Sim) Switches() int { return s.switches }

//go:norace
func (s *Sim) Edges() []uint64 {
	r := make([]uint64, 0, len(s.edges))
	for e := range s.edges {
		r = append(r, e)
	}
	return r
}

//go:norace
func (s *Sim) Tasks() []*Task { return s.tasks }

//go:norace
func (s *Sim) Rng() *Rand { return s.rng }

// Probe counts a reach probe.
//
//go:norace
func Probe(name string) {
	if S != nil {
		bump(&S.probes, &S.nprobes, name)
	}
}

//go:norace
func bump(tab *[maxCounters]counter, n *int, name string) {
	for i := 0; i < *n; i++ {
		if tab[i].name == name {
			tab[i].n++
			return
		}
	}
	if *n < maxCounters {
		tab[*n] = counter{name, 1}
		*n++
	}
}

// Probes / Faults return the counters of the run.
//
//go:norace
func (s *Sim) Probes() map[string]int {
	m := map[string]int{}
	for i := 0; i < s.nprobes; i++ {
		m[s.probes[i].name] = s.probes[i].n
	}
	return m
}

//go:norace
func (s *Sim) Faults() map[string]int {
	m := map[string]int{}
	for i := 0; i < s.nfaults; i++ {
		m[s.faults[i].name] = s.faults[i].n
	}
	return m
}

// Fault counts an injected fault that actually fired.
//
//go:norace
func Fault(name string) {
	if S != nil {
		bump(&S.faults, &S.nfaults, name)
	}
}

// Abort asks the scheduler to stop the run (a violation was found).
//
//go:norace
func Abort(msg string) {
	if S != nil && !S.abort {
		S.abort = true
		S.abortMsg = msg
	}
}

// Result of a run.
type Result struct {
	End       End
	Msg       string
	Steps     int
	Elapsed   time.Duration
	Leaked    []TaskInfo
	TraceHash uint64
}

type TaskInfo struct {
	ID     int
	Name   string
	State  string
	Site   string
	GoSite string
	Daemon bool
}

// Run executes main as task 0 inside the current synctest bubble and
// schedules until every task has finished or the run ends abnormally.
// It must be called from the bubble's root goroutine.
//
//go:norace
func Run(cfg Config, rng *Rand, main func()) (res Result) {
	if cfg.MaxSteps <= 0 {
		cfg.MaxSteps = 20000
	}
	if cfg.IdleCap <= 0 {
		cfg.IdleCap = 2 * time.Hour
	}
	if cfg.StickyK <= 0 {
		cfg.StickyK = 4
	}
	s := &Sim{
		cfg:      cfg,
		rng:      rng,
		wakeCh:   make(chan struct{}, 1),
		edges:    map[uint64]struct{}{},
		start:    time.Now(),
		tasks:    make([]*Task, 0, maxTasks),
		lastTask: -1,
	}
	s.traceHash = 14695981039346656037
	s.schedHash = 14695981039346656037
	if cfg.Strategy == StratPCT {
		s.pctChange = map[int]bool{}
		h := cfg.PCTSteps
		if h <= 0 {
			h = 200
		}
		for i := 0; i < cfg.PCTDepth; i++ {
			s.pctChange[rng.Choose(h)] = true
		}
	}
	s.HashSalt = uint64(rng.Choose(1<<30))<<30 | uint64(rng.Choose(1<<30))
	S = s
	defer func() { S = nil }()

	s.spawn(-1, 0, "main", main)
	s.loop()

	res.End = s.end
	res.Msg = s.endMsg
	res.Steps = s.steps
	res.Elapsed = time.Since(s.start)
	res.TraceHash = s.traceHash
	for _, t := range s.tasks {
		if t.state != tsDone {
			res.Leaked = append(res.Leaked, TaskInfo{t.ID, t.Name, stateName[t.state], SiteName(t.site), SiteName(t.GoSite), t.Daemon})
		}
	}
	return res
}

//go:norace
func (s *Sim) spawn(parent, site int, name string, f func()) *Task {
	t := &Task{ID: len(s.tasks), Name: name, Parent: parent, GoSite: site, state: tsParked, site: site}
	t.cond = sync.NewCond(noLock{})
	if s.cfg.Strategy == StratPCT {
		t.prio = 1000 + s.rng.Choose(1000)
	}
	if len(s.tasks) >= maxTasks {
		panic("simrt: too many tasks")
	}
	s.tasks = append(s.tasks, t) // capacity pre-allocated: no growth
	go t.main(f)
	return t
}

//go:norace
func (t *Task) main(f func()) {
	t.waitWake()
	defer t.exit()
	f()
}

//go:norace
func (t *Task) exit() {
	if r := recover(); r != nil {
		t.panicVal = r
		if S != nil {
			S.abort = true
			S.abortMsg = fmt.Sprintf("panic in task %d (%s): %v", t.ID, t.Name, r)
			if os.Getenv("VERIF_PANIC_TRACE") != "" {
				panic(r)
			}
		}
	}
	t.state = tsDone
	if S != nil {
		t.ExitAt = time.Since(S.start)
	}
}

// waitWake blocks on the task's cond until the scheduler selects it.
//
//go:norace
func (t *Task) waitWake() {
	for !t.wake {
		t.cond.Wait()
	}
	t.wake = false
	t.state = tsRunning
}

// park gives control to the scheduler; returns when selected again.
//
//go:norace
func (t *Task) park(site int, state int) {
	t.site = site
	t.state = state
	t.waitWake()
}

// afterNative is called by a task right after a native blocking operation
// returned: it parks and tells the (possibly idle) scheduler.
//
//go:norace
func (t *Task) afterNative(site int) {
	t.site = site
	t.state = tsParked
	select {
	case S.wakeCh <- struct{}{}:
	default:
	}
	t.waitWake()
}

//go:norace
func (s *Sim) loop() {
	for {
		synctest.Wait()
		if s.abort {
			s.end = EndAbort
			s.endMsg = s.abortMsg
			for _, t := range s.tasks {
				if t.panicVal != nil {
					s.end = EndPanic
				}
			}
			return
		}
		var runnable []*Task
		alive, blocked, lockw := 0, 0, 0
		for _, t := range s.tasks {
			switch t.state {
			case tsParked:
				runnable = append(runnable, t)
				alive++
			case tsLockWait:
				alive++
				if t.lockGen != s.unlockGen {
					runnable = append(runnable, t)
				} else {
					lockw++
				}
			case tsBlocked:
				alive++
				blocked++
			case tsRunning, tsNew:
				panic("simrt: task still running after synctest.Wait")
			}
		}
		if alive == 0 {
			s.end = EndClean
			return
		}
		if len(runnable) == 0 {
			if blocked == 0 {
				s.end = EndDeadlock
				s.endMsg = "all live tasks wait for locks"
				return
			}
			// Let virtual time advance: everything in the bubble is durably
			// blocked once we block here.
			tm := time.NewTimer(s.cfg.IdleCap)
			select {
			case <-s.wakeCh:
				tm.Stop()
				continue
			case <-tm.C:
				// drain a racing wake
				select {
				case <-s.wakeCh:
					continue
				default:
				}
				s.end = EndStuck
				s.endMsg = "tasks blocked with no timer to wake them"
				return
			}
		}
		if s.steps >= s.cfg.MaxSteps {
			s.end = EndStepCap
			return
		}
		t := s.pick(runnable)
		s.record(t, len(runnable))
		s.running = t
		t.wake = true
		t.cond.Signal()
	}
}

//go:norace
func (s *Sim) pick(r []*Task) *Task {
	if len(r) == 1 {
		return r[0]
	}
	switch s.cfg.Strategy {
	case StratSticky:
		for _, t := range r {
			if t.ID == s.lastTask {
				if s.rng.Choose(s.cfg.StickyK) != 0 {
					return t
				}
				break
			}
		}
		return r[s.rng.Choose(len(r))]
	case StratPCT:
		if s.pctChange[s.steps] {
			for _, t := range r {
				if t.ID == s.lastTask {
					t.prio = s.cfg.PCTDepth - len(s.pctChange) // low
					delete(s.pctChange, s.steps)
				}
			}
		}
		best := r[0]
		for _, t := range r[1:] {
			if t.prio > best.prio {
				best = t
			}
		}
		// lock waiters spin: demote slightly so the holder can run
		if best.state == tsLockWait {
			best.prio--
		}
		return best
	case StratRR:
		s.rrNext++
		return r[s.rrNext%len(r)]
	default:
		return r[s.rng.Choose(len(r))]
	}
}

//go:norace
func (s *Sim) record(t *Task, n int) {
	s.steps++
	st := Step{t.ID, t.site, n}
	if s.cfg.TraceLimit == 0 || len(s.trace) < s.cfg.TraceLimit {
		s.trace = append(s.trace, st)
	}
	h := s.traceHash
	h = (h ^ uint64(t.ID)) * 1099511628211
	h = (h ^ uint64(t.site)) * 1099511628211
	s.traceHash = h
	if n >= 2 {
		s.contended++
		g := s.schedHash
		g = (g ^ uint64(t.ID)) * 1099511628211
		g = (g ^ uint64(t.site)) * 1099511628211
		s.schedHash = g
	}
	if s.lastTask != t.ID {
		s.switches++
		if s.lastTask >= 0 {
			from := s.tasks[s.lastTask].site
			s.edges[uint64(from)<<32|uint64(uint32(t.site))] = struct{}{}
		}
	}
	s.lastTask = t.ID
}

// Yield is a preemption point.
//
//go:norace
func Yield(site int) {
	if t := cur(); t != nil {
		t.park(site, tsParked)
	}
}

// Go starts f as a new task (or a plain goroutine outside a simulation).
//
//go:norace
func Go(site int, f func()) {
	t := cur()
	if t == nil {
		if S != nil {
			panic("simrt.Go from a non-task goroutine during a simulation: " + SiteName(site))
		}
		go f()
		return
	}
	S.spawn(t.ID, site, SiteName(site), f)
	t.park(site, tsParked)
}

// GoNamed starts a harness task.
//
//go:norace
func GoNamed(name string, f func()) *Task {
	t := cur()
	if t == nil {
		panic("simrt.GoNamed outside a task")
	}
	nt := S.spawn(t.ID, 0, name, f)
	return nt
}

// BlockNative runs a natively blocking operation f (which must be durably
// blocking for synctest) and parks afterwards.
//
//go:norace
func BlockNative(site int, f func()) {
	t := cur()
	if t == nil {
		f()
		return
	}
	t.park(site, tsParked)
	t.site = site
	t.state = tsBlocked
	f()
	t.afterNative(site)
}

// Sleep is time.Sleep on the virtual clock.
//
//go:norace
func Sleep(site int, d time.Duration) {
	BlockNative(site, func() { time.Sleep(d) })
}

// WaitGroupWait wraps wg.Wait().
//
//go:norace
func WaitGroupWait(site int, wg *sync.WaitGroup) {
	BlockNative(site, wg.Wait)
}

type tryLocker interface {
	TryLock() bool
	Lock()
	Unlock()
}

// Lock acquires mu cooperatively.
//
//go:norace
func Lock(site int, mu tryLocker) {
	t := cur()
	if t == nil {
		mu.Lock()
		return
	}
	t.park(site, tsParked)
	for !mu.TryLock() {
		t.lockGen = S.unlockGen
		t.park(site, tsLockWait)
	}
}

//go:norace
func Unlock(site int, mu tryLocker) {
	mu.Unlock()
	if S != nil {
		S.unlockGen++
		// A release is a synchronisation operation too: somebody waiting for the
		// lock (or anybody else) may run before the releasing goroutine continues.
		if t := S.running; t != nil && !S.noYieldAfterUnlock {
			t.park(site, tsParked)
		}
	}
}

// RLock / RUnlock for sync.RWMutex.
//
//go:norace
func RLock(site int, mu *sync.RWMutex) {
	t := cur()
	if t == nil {
		mu.RLock()
		return
	}
	t.park(site, tsParked)
	for !mu.TryRLock() {
		t.lockGen = S.unlockGen
		t.park(site, tsLockWait)
	}
}

//go:norace
func RUnlock(site int, mu *sync.RWMutex) {
	mu.RUnlock()
	if S != nil {
		S.unlockGen++
		if t := S.running; t != nil && !S.noYieldAfterUnlock {
			t.park(site, tsParked)
		}
	}
}

type onceState struct {
	done bool
}

// OnceDo is once.Do(f) with cooperative waiting.
//
//go:norace
func OnceDo(site int, o *sync.Once, f func()) {
	t := cur()
	if t == nil {
		o.Do(f)
		return
	}
	t.park(site, tsParked)
	var st *onceState
	for i := 0; i < S.nonces; i++ {
		if S.onces[i].o == o {
			st = &S.onces[i].st
			break
		}
	}
	if st == nil {
		if S.nonces >= maxOnces {
			panic("simrt: too many sync.Once objects")
		}
		S.onces[S.nonces].o = o
		st = &S.onces[S.nonces].st
		S.nonces++
		defer func() {
			st.done = true
			S.unlockGen++
		}()
		o.Do(f)
		return
	}
	for !st.done {
		t.lockGen = S.unlockGen
		t.park(site, tsLockWait)
	}
	o.Do(f) // fast path; keeps the happens-before edge visible
}

// YA is a preemption point in front of an atomic access: x.Load() becomes
// simrt.YA(site, &x).Load().
//
//go:norace
func YA[T any](site int, p *T) *T {
	if t := cur(); t != nil {
		t.park(site, tsParked)
	}
	return p
}

// WaitUntil parks the calling harness task until virtual time d has elapsed
// since the start of the run.
//
//go:norace
func WaitUntil(d time.Duration) {
	rem := d - S.Elapsed()
	if rem > 0 {
		Sleep(0, rem)
	}
}

// CurTaskID returns the id of the running task, -1 if none.
//
//go:norace
func CurTaskID() int {
	if t := cur(); t != nil {
		return t.ID
	}
	return -1
}

// TaskParent returns the parent task id of task id (-1 for main).
//
//go:norace
func TaskParent(id int) int {
	if S == nil || id < 0 || id >= len(S.tasks) {
		return -1
	}
	return S.tasks[id].Parent
}

// Tick returns a fresh global event sequence number (for history stamps).
//
//go:norace
func Tick() int64 {
	if S == nil {
		return 0
	}
	S.tick++
	return S.tick
}
