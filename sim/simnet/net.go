// Package simnet is the simulated network: in-memory stream and datagram
// connections whose every operation is a scheduled step of the simrt
// scheduler, with deadlines on the virtual clock and PRNG-chosen chunking.
package simnet

import (
	"context"
	"errors"
	"fmt"
	"io"
	"net"
	"net/netip"
	"os"
	"time"

	"verif/sim/simrt"
)

var (
	siteRead   = simrt.HarnessSite("simnet.Read")
	siteWrite  = simrt.HarnessSite("simnet.Write")
	siteClose  = simrt.HarnessSite("simnet.Close")
	siteDial   = simrt.HarnessSite("simnet.Dial")
	siteAccept = simrt.HarnessSite("simnet.Accept")
	siteDl     = simrt.HarnessSite("simnet.SetDeadline")
)

var (
	ErrReset   = errors.New("simnet: connection reset by peer")
	ErrRefused = errors.New("simnet: connection refused")
	ErrInjWrite = errors.New("simnet: injected write error")
	ErrInjRead  = errors.New("simnet: injected read error")
	ErrFrameTooLarge = errors.New("simnet: implausible frame length")
)

type timeoutErr struct{}

func (timeoutErr) Error() string   { return "simnet: i/o timeout" }
func (timeoutErr) Timeout() bool   { return true }
func (timeoutErr) Temporary() bool { return true }
func (timeoutErr) Is(target error) bool {
	return target == os.ErrDeadlineExceeded || target == context.DeadlineExceeded
}

// Frame describes one message written with WriteMsg, for oracles.
type Frame struct {
	End   int // stream offset (bytes) or packet index+1 at which the frame is completely consumed
	Data  []byte
	Tag   any
}

// half is one direction of a connection.
type half struct {
	stream  bool
	buf     []byte   // stream: unread bytes
	pkts    [][]byte // dgram: unread packets
	wclosed bool     // writer closed: EOF after drain
	rst     error    // reader sees this error immediately
	notify  chan struct{}
	drained chan struct{} // signalled when the reader consumed something (bounded send buffers)
	written int // total bytes/packets written
	read    int // total bytes/packets consumed by the reader
	frames  []Frame
	nframe  int // frames fully consumed
}

func (h *half) signal() {
	select {
	case h.notify <- struct{}{}:
	default:
	}
}

func (h *half) signalDrained() {
	select {
	case h.drained <- struct{}{}:
	default:
	}
}

// Event is an entry of the network log.
type Event struct {
	Step int
	At   time.Duration
	Conn int
	Side string // "c" client end, "s" server end
	Kind string // dial, dialerr, read, write, close, consumed, timeout, reset
	N    int
	Tag  any
}

// Net is the simulated network of one run.
type Net struct {
	eps     map[string]*Endpoint
	conns   []*Conn // client ends, by id
	Log     []Event
	OnEvent func(Event)
	// OnDial is called for every new connection (client end) before it is returned.
	OnDial func(c *Conn)
	// ChunkMode: 0 whole, 1 PRNG split, 2 single bytes (per stream read)
	ChunkMode int
	// LazyRST: a write on a connection the peer has reset is accepted silently
	// (the RST has not reached the writer yet); only reads observe the reset.
	LazyRST bool
}

func New() *Net {
	return &Net{eps: map[string]*Endpoint{}}
}

func (n *Net) logf(c *Conn, kind string, cnt int, tag any) {
	e := Event{Step: simrt.S.Steps(), At: simrt.S.Elapsed(), Conn: c.ID, Side: c.side, Kind: kind, N: cnt, Tag: tag}
	n.Log = append(n.Log, e)
	if n.OnEvent != nil {
		n.OnEvent(e)
	}
}

// Conns returns the client ends of all connections dialled so far.
func (n *Net) Conns() []*Conn { return n.conns }

// Endpoint is a server address.
type Endpoint struct {
	Net     *Net
	Network string // "tcp" or "udp"
	Addr    string
	// Serve runs as a harness task for every accepted connection.
	Serve func(sc *Conn)
	// DialFault decides the fate of the next dial: nil=ok.
	// It may block (e.g. until ctx is done) and return an error.
	DialFault func(ctx context.Context, nth int) error
	Dials     int
	accept    chan *Conn // for Listener mode
}

func key(network, addr string) string {
	switch network {
	case "tcp", "tcp4", "tcp6":
		network = "tcp"
	case "udp", "udp4", "udp6":
		network = "udp"
	}
	return network + ":" + addr
}

// Handle registers a server behaviour.
func (n *Net) Handle(network, addr string, serve func(sc *Conn)) *Endpoint {
	ep := &Endpoint{Net: n, Network: network, Addr: addr, Serve: serve}
	n.eps[key(network, addr)] = ep
	return ep
}

// Dial implements the DialContext hook.
func (n *Net) Dial(ctx context.Context, network, addr string) (net.Conn, error) {
	simrt.Yield(siteDial)
	ep := n.eps[key(network, addr)]
	if ep == nil {
		simrt.Fault("dial_refused_noendpoint")
		return nil, &net.OpError{Op: "dial", Net: network, Err: ErrRefused}
	}
	ep.Dials++
	nth := ep.Dials
	if ep.DialFault != nil {
		if err := ep.DialFault(ctx, nth); err != nil {
			return nil, &net.OpError{Op: "dial", Net: network, Err: err}
		}
	}
	if err := ctx.Err(); err != nil {
		return nil, &net.OpError{Op: "dial", Net: network, Err: err}
	}
	stream := key(network, "") == "tcp:"
	c, s := n.pair(stream, addr)
	c.DialTask = simrt.CurTaskID()
	c.DialAt, c.DialStep = simrt.S.Elapsed(), simrt.S.Steps()
	if n.OnDial != nil {
		n.OnDial(c)
	}
	n.logf(c, "dial", nth, nil)
	if ep.accept != nil {
		simrt.Send(siteDial, ep.accept, s)
	} else if ep.Serve != nil {
		simrt.GoNamed(fmt.Sprintf("srv[%s#%d]", addr, c.ID), func() { ep.Serve(s) }).Daemon = true
	}
	return c, nil
}

func (n *Net) pair(stream bool, addr string) (*Conn, *Conn) {
	c2s := &half{stream: stream, notify: make(chan struct{}, 1), drained: make(chan struct{}, 1)}
	s2c := &half{stream: stream, notify: make(chan struct{}, 1), drained: make(chan struct{}, 1)}
	id := len(n.conns)
	c := &Conn{Net: n, ID: id, side: "c", Stream: stream, rd: s2c, wr: c2s, closedCh: make(chan struct{}), addr: addr}
	s := &Conn{Net: n, ID: id, side: "s", Stream: stream, rd: c2s, wr: s2c, closedCh: make(chan struct{}), addr: addr}
	c.peer, s.peer = s, c
	n.conns = append(n.conns, c)
	return c, s
}

// Conn is one end of a simulated connection.
type Conn struct {
	Net    *Net
	ID     int
	side   string
	Stream bool
	rd, wr *half
	peer   *Conn
	addr   string

	closed   bool
	closedCh chan struct{}
	Closes   int // number of Close calls

	rdl, wdl time.Time

	// fault injection (set by the harness)
	FailWriteAt int   // the n-th Write (1-based) fails with FailWriteErr; 0 = never
	FailReadAt  int   // the n-th Read fails
	DropWriteAt map[int]bool // dgram: these writes (1-based) are silently dropped
	Writes      int
	Reads       int

	clientIP string
	// SendBuf bounds how many unread bytes this end may have in flight towards the
	// peer (stream only, 0 = unbounded): a Write blocks while the peer's receive
	// buffer is full, until the peer reads, the write deadline passes, or the
	// connection is closed - the "slow reader" fault.
	SendBuf  int
	// MaxFrame: ReadMsg refuses length prefixes above this (0 = no limit); lets a
	// harness notice a garbage frame at once instead of waiting for its "body".
	MaxFrame int
	wlock    chan struct{} // serialises whole Write calls, as the fd write lock does
	DialTask int // id of the task that dialled
	DialAt   time.Duration
	DialStep int
	// silentDead: the peer is gone but neither FIN nor RST has reached this end;
	// the next Write triggers the RST.
	silentDead bool
	// WriteHook, if set, is called for each Write attempt on an open connection (same task).
	WriteHook func(c *Conn, b []byte)
}

func (c *Conn) Side() string { return c.side }
func (c *Conn) Peer() *Conn  { return c.peer }
func (c *Conn) IsClosed() bool { return c.closed }

// Frames returns the frames written by the peer towards this end, and how many
// of them this end has completely consumed.
func (c *Conn) Frames() ([]Frame, int) { return c.rd.frames, c.rd.nframe }

type addr struct{ network, s string }

func (a addr) Network() string { return a.network }
func (a addr) String() string  { return a.s }

func (c *Conn) mkAddr(s string) net.Addr {
	ap, err := netip.ParseAddrPort(s)
	if err != nil {
		if c.Stream {
			return addr{"tcp", s}
		}
		return addr{"udp", s}
	}
	if c.Stream {
		return net.TCPAddrFromAddrPort(ap)
	}
	return net.UDPAddrFromAddrPort(ap)
}

func (c *Conn) clientAddr() string {
	ip := "10.0.0.1"
	if c.side == "c" && c.clientIP != "" {
		ip = c.clientIP
	} else if c.side == "s" && c.peer.clientIP != "" {
		ip = c.peer.clientIP
	}
	return fmt.Sprintf("%s:%d", ip, 40000+c.ID%20000)
}

// SetClientIP sets the source address the server end reports for this connection.
func (c *Conn) SetClientIP(ip string) { c.clientIP = ip }

func (c *Conn) LocalAddr() net.Addr {
	if c.side == "c" {
		return c.mkAddr(c.clientAddr())
	}
	return c.mkAddr(c.addr)
}

func (c *Conn) RemoteAddr() net.Addr {
	if c.side == "s" {
		return c.mkAddr(c.clientAddr())
	}
	return c.mkAddr(c.addr)
}

func (c *Conn) SetDeadline(t time.Time) error {
	simrt.Yield(siteDl)
	c.rdl, c.wdl = t, t
	c.rd.signal() // wake a blocked reader so that it re-arms its timer
	return nil
}

func (c *Conn) SetReadDeadline(t time.Time) error {
	simrt.Yield(siteDl)
	c.rdl = t
	c.rd.signal()
	return nil
}

func (c *Conn) SetWriteDeadline(t time.Time) error {
	c.wdl = t
	c.wr.signalDrained() // wake a blocked writer so that it re-arms its timer
	return nil
}

// Read implements net.Conn.
func (c *Conn) Read(p []byte) (int, error) {
	simrt.Yield(siteRead)
	c.Reads++
	if c.FailReadAt != 0 && c.Reads == c.FailReadAt {
		simrt.Fault("read_error")
		c.Net.logf(c, "readerr", 0, nil)
		return 0, &net.OpError{Op: "read", Net: "sim", Err: ErrInjRead}
	}
	if len(p) == 0 && !c.closed {
		// like internal/poll.(*FD).Read: a zero-byte read returns at once, without
		// waiting for data and without looking at the deadline
		simrt.Fault("zero_length_read")
		return 0, nil
	}
	h := c.rd
	for {
		if c.closed {
			return 0, &net.OpError{Op: "read", Net: "sim", Err: net.ErrClosed}
		}
		if h.stream {
			if len(h.buf) > 0 {
				n := len(p)
				if n > len(h.buf) {
					n = len(h.buf)
				}
				switch c.Net.ChunkMode {
				case 1:
					if n > 1 && simrt.Choose(2) == 0 {
						n = 1 + simrt.Choose(n)
					}
				case 2:
					n = 1
				}
				if len(p) == 0 {
					return 0, nil
				}
				copy(p, h.buf[:n])
				h.buf = h.buf[n:]
				h.read += n
				h.signalDrained()
				c.noteConsumed()
				return n, nil
			}
		} else if len(h.pkts) > 0 {
			pk := h.pkts[0]
			h.pkts = h.pkts[1:]
			n := copy(p, pk)
			h.read++
			c.noteConsumed()
			return n, nil
		}
		if h.rst != nil {
			c.Net.logf(c, "reset", 0, nil)
			return 0, &net.OpError{Op: "read", Net: "sim", Err: h.rst}
		}
		if h.wclosed {
			c.Net.logf(c, "eof", 0, nil)
			return 0, io.EOF
		}
		// wait for data, close, or the deadline
		var tc <-chan time.Time
		var tm *time.Timer
		if !c.rdl.IsZero() {
			d := time.Until(c.rdl)
			if d <= 0 {
				c.Net.logf(c, "timeout", 0, nil)
				return 0, &net.OpError{Op: "read", Net: "sim", Err: timeoutErr{}}
			}
			tm = time.NewTimer(d)
			tc = tm.C
		}
		simrt.Select(siteRead, false, simrt.R(h.notify, nil, nil), simrt.R(tc, nil, nil), simrt.R(c.closedCh, nil, nil))
		if tm != nil {
			tm.Stop()
		}
	}
}

func (c *Conn) noteConsumed() {
	h := c.rd
	for h.nframe < len(h.frames) && h.frames[h.nframe].End <= h.read {
		f := h.frames[h.nframe]
		h.nframe++
		c.Net.logf(c, "consumed", h.nframe, f.Tag)
	}
}

// Write implements net.Conn. It never blocks.
func (c *Conn) Write(p []byte) (int, error) {
	simrt.Yield(siteWrite)
	return c.write(p, nil, false)
}

func (c *Conn) write(p []byte, tag any, framed bool) (int, error) {
	c.Writes++
	if c.closed {
		return 0, &net.OpError{Op: "write", Net: "sim", Err: net.ErrClosed}
	}
	if c.WriteHook != nil {
		// every write attempt on an open connection, whatever its fate
		c.WriteHook(c, append([]byte(nil), p...))
	}
	if !c.wdl.IsZero() && !time.Now().Before(c.wdl) {
		// like a real socket: a write with an expired write deadline fails at once,
		// whether or not it would have blocked
		simrt.Fault("write_deadline_already_expired")
		c.Net.logf(c, "write_timeout", 0, nil)
		return 0, &net.OpError{Op: "write", Net: "sim", Err: timeoutErr{}}
	}
	if c.FailWriteAt != 0 && c.Writes == c.FailWriteAt {
		simrt.Fault("write_error")
		c.Net.logf(c, "writeerr", 0, nil)
		return 0, &net.OpError{Op: "write", Net: "sim", Err: ErrInjWrite}
	}
	if c.silentDead {
		simrt.Fault("write_on_silently_dead_conn")
		c.silentDead = false
		c.rd.rst = ErrReset
		c.rd.signal()
		c.Net.logf(c, "write_hits_dead_peer", len(p), tag)
		if simrt.Choose(2) == 0 {
			return 0, &net.OpError{Op: "write", Net: "sim", Err: ErrReset}
		}
		return len(p), nil
	}
	if c.rd.rst != nil {
		if c.Net.LazyRST {
			c.Net.logf(c, "write_after_rst_discarded", len(p), tag)
			return len(p), nil
		}
		return 0, &net.OpError{Op: "write", Net: "sim", Err: c.rd.rst}
	}
	if c.peer.closed {
		// peer is gone: the first write is accepted by the local stack, later
		// ones would see RST; we model the RST as immediate for reads only.
		c.Net.logf(c, "write_to_closed", len(p), tag)
		if c.Stream {
			c.rd.rst = ErrReset
			c.rd.signal()
		}
		return len(p), nil
	}
	if c.DropWriteAt[c.Writes] {
		simrt.Fault("dgram_drop")
		c.Net.logf(c, "dropped", len(p), tag)
		return len(p), nil
	}
	h := c.wr
	cp := append([]byte(nil), p...)
	if h.stream && c.SendBuf > 0 {
		// bounded send buffer: may block, may end in a partial write.
		// Concurrent Write calls on one connection do not interleave: like the
		// kernel fd write lock, one call runs to its end before the next starts.
		if c.wlock == nil {
			c.wlock = make(chan struct{}, 1)
		}
		simrt.Send(siteWrite, c.wlock, struct{}{})
		defer func() { <-c.wlock }()
		written := 0
		for written < len(cp) {
			if c.closed {
				return written, &net.OpError{Op: "write", Net: "sim", Err: net.ErrClosed}
			}
			if space := c.SendBuf - len(h.buf); space > 0 {
				n := len(cp) - written
				if n > space {
					n = space
				}
				h.buf = append(h.buf, cp[written:written+n]...)
				h.written += n
				written += n
				h.signal()
				continue
			}
			simrt.Probe("simnet.write_blocked_on_slow_reader")
			var tc <-chan time.Time
			var tm *time.Timer
			if !c.wdl.IsZero() {
				d := time.Until(c.wdl)
				if d <= 0 {
					simrt.Fault("write_deadline_partial_write")
					c.Net.logf(c, "write_timeout_partial", written, tag)
					return written, &net.OpError{Op: "write", Net: "sim", Err: timeoutErr{}}
				}
				tm = time.NewTimer(d)
				tc = tm.C
			}
			simrt.Select(siteWrite, false, simrt.R(h.drained, nil, nil), simrt.R(tc, nil, nil), simrt.R(c.closedCh, nil, nil), simrt.R(c.peer.closedCh, nil, nil))
			if tm != nil {
				tm.Stop()
			}
			if c.peer.closed {
				return written, &net.OpError{Op: "write", Net: "sim", Err: ErrReset}
			}
		}
		if framed {
			h.frames = append(h.frames, Frame{End: h.written, Data: cp, Tag: tag})
		}
		c.Net.logf(c, "write", len(p), tag)
		return len(p), nil
	}
	if h.stream {
		h.buf = append(h.buf, cp...)
		h.written += len(cp)
	} else {
		h.pkts = append(h.pkts, cp)
		h.written++
	}
	if framed {
		h.frames = append(h.frames, Frame{End: h.written, Data: cp, Tag: tag})
	}
	c.Net.logf(c, "write", len(p), tag)
	h.signal()
	return len(p), nil
}

// Close implements net.Conn.
func (c *Conn) Close() error {
	simrt.Yield(siteClose)
	c.Closes++
	if c.closed {
		return &net.OpError{Op: "close", Net: "sim", Err: net.ErrClosed}
	}
	c.closed = true
	close(c.closedCh)
	c.wr.wclosed = true
	c.wr.signal()
	c.Net.logf(c, "close", 0, nil)
	return nil
}

// CloseWrite half-closes the connection: the peer sees EOF after draining,
// this end can still read (QUIC stream FIN).
func (c *Conn) CloseWrite() error {
	simrt.Yield(siteClose)
	if c.closed {
		return &net.OpError{Op: "close", Net: "sim", Err: net.ErrClosed}
	}
	c.wr.wclosed = true
	c.wr.signal()
	c.Net.logf(c, "closewrite", 0, nil)
	return nil
}

// ---- server-side helpers (harness tasks) ----

// WriteMsg writes one DNS message (adding the length header on streams) and
// records it as a frame tagged with tag.
func (c *Conn) WriteMsg(b []byte, tag any) error {
	simrt.Yield(siteWrite)
	var err error
	if c.Stream {
		fb := make([]byte, 2+len(b))
		fb[0], fb[1] = byte(len(b)>>8), byte(len(b))
		copy(fb[2:], b)
		_, err = c.write(fb, tag, true)
	} else {
		_, err = c.write(b, tag, true)
	}
	return err
}

// WriteRaw writes raw bytes (no framing, no frame record).
func (c *Conn) WriteRaw(b []byte) error {
	simrt.Yield(siteWrite)
	_, err := c.write(b, nil, false)
	return err
}

// ReadMsg reads one DNS message with an independent framer.
func (c *Conn) ReadMsg() ([]byte, error) {
	if !c.Stream {
		b := make([]byte, 65535)
		n, err := c.Read(b)
		if err != nil {
			return nil, err
		}
		return b[:n], nil
	}
	var hdr [2]byte
	if _, err := io.ReadFull(c, hdr[:]); err != nil {
		return nil, err
	}
	l := int(hdr[0])<<8 | int(hdr[1])
	if c.MaxFrame > 0 && l > c.MaxFrame {
		return nil, fmt.Errorf("%w: length prefix %d", ErrFrameTooLarge, l)
	}
	b := make([]byte, l)
	if _, err := io.ReadFull(c, b); err != nil {
		return nil, err
	}
	return b, nil
}

// Reset aborts the connection: the peer's reads and writes fail.
func (c *Conn) Reset() {
	simrt.Yield(siteClose)
	simrt.Fault("conn_reset")
	c.closed = true
	select {
	case <-c.closedCh:
	default:
		close(c.closedCh)
	}
	c.wr.rst = ErrReset
	c.wr.signal()
	c.Net.logf(c, "rst", 0, nil)
}

// KillSilently makes the server end vanish without FIN/RST: the client learns
// about it only when it writes next (NAT timeout, crashed peer).
func (c *Conn) KillSilently() {
	simrt.Yield(siteClose)
	simrt.Fault("conn_silent_kill")
	c.closed = true
	select {
	case <-c.closedCh:
	default:
		close(c.closedCh)
	}
	c.peer.silentDead = true
	c.Net.logf(c, "silent_kill", 0, nil)
}

// ---- listener ----

type Listener struct {
	ep     *Endpoint
	closed chan struct{}
}

// Listen creates a listener endpoint: dials to addr are queued for Accept.
func (n *Net) Listen(network, addr string) *Listener {
	ep := &Endpoint{Net: n, Network: network, Addr: addr, accept: make(chan *Conn, 64)}
	n.eps[key(network, addr)] = ep
	return &Listener{ep: ep, closed: make(chan struct{})}
}

func (l *Listener) Accept() (net.Conn, error) {
	var c *Conn
	i := simrt.Select(siteAccept, false, simrt.R(l.ep.accept, &c, nil), simrt.R(l.closed, nil, nil))
	if i == 1 {
		return nil, net.ErrClosed
	}
	return c, nil
}

func (l *Listener) Close() error {
	select {
	case <-l.closed:
	default:
		close(l.closed)
	}
	return nil
}

func (l *Listener) Addr() net.Addr { return addr{"tcp", l.ep.Addr} }

// ---- packet listener: one unconnected datagram socket serving many clients ----

type pkt struct {
	b    []byte
	from netip.AddrPort
}

// PacketListener models a bound UDP socket (the methods of *net.UDPConn a
// datagram server uses): datagrams of every client that "dials" the address
// arrive in one queue, replies are routed by the sender's address.
type PacketListener struct {
	n      *Net
	in     chan pkt
	closed chan struct{}
	conns  map[netip.AddrPort]*Conn
}

// ListenPacket creates the socket. Each dialling client gets a datagram
// connection whose server end is drained into the socket's receive queue.
func (n *Net) ListenPacket(addr string) *PacketListener {
	pl := &PacketListener{n: n, in: make(chan pkt, 1024), closed: make(chan struct{}), conns: map[netip.AddrPort]*Conn{}}
	n.Handle("udp", addr, func(sc *Conn) {
		for {
			b, err := sc.ReadMsg()
			if err != nil {
				return
			}
			// the sender's address (the client may set its source IP after dialling)
			ra, err := netip.ParseAddrPort(sc.RemoteAddr().String())
			if err != nil {
				panic(err)
			}
			pl.conns[ra] = sc
			p := pkt{b, ra}
			if simrt.Select(siteRead, false, simrt.W(pl.in, &p), simrt.R(pl.closed, nil, nil)) == 1 {
				return
			}
		}
	})
	return pl
}

func (pl *PacketListener) ReadMsgUDPAddrPort(b, oob []byte) (n, oobn, flags int, addr netip.AddrPort, err error) {
	var p pkt
	if simrt.Select(siteRead, false, simrt.R(pl.in, &p, nil), simrt.R(pl.closed, nil, nil)) == 1 {
		return 0, 0, 0, netip.AddrPort{}, net.ErrClosed
	}
	return copy(b, p.b), 0, 0, p.from, nil
}

func (pl *PacketListener) WriteMsgUDPAddrPort(b, oob []byte, addr netip.AddrPort) (n, oobn int, err error) {
	sc := pl.conns[addr]
	if sc == nil || sc.IsClosed() {
		return 0, 0, &net.OpError{Op: "write", Net: "sim", Err: net.ErrClosed}
	}
	if err := sc.WriteMsg(append([]byte(nil), b...), nil); err != nil {
		return 0, 0, err
	}
	return len(b), 0, nil
}

func (pl *PacketListener) Close() error {
	select {
	case <-pl.closed:
	default:
		close(pl.closed)
	}
	return nil
}
