module verif/sim

go 1.26.8

require (
	github.com/IrineSistiana/mosdns/v5 v5.0.0
	github.com/anishathalye/porcupine v1.3.0
	github.com/miekg/dns v1.1.62
)

require (
	github.com/IrineSistiana/go-bytes-pool v0.0.0-20230918115058-c72bd9761c57 // indirect
	github.com/mitchellh/mapstructure v1.5.0 // indirect
	github.com/quic-go/qpack v0.5.1 // indirect
	github.com/quic-go/quic-go v0.48.2 // indirect
	go.uber.org/multierr v1.11.0 // indirect
	go.uber.org/zap v1.27.0 // indirect
	golang.org/x/crypto v0.30.0 // indirect
	golang.org/x/exp v0.0.0-20241210194714-1829a127f884 // indirect
	golang.org/x/net v0.32.0 // indirect
	golang.org/x/sync v0.10.0 // indirect
	golang.org/x/sys v0.28.0 // indirect
	golang.org/x/text v0.21.0 // indirect
)

replace github.com/IrineSistiana/mosdns/v5 => /repo

replace golang.org/x/sync => ./third_party/x_sync
