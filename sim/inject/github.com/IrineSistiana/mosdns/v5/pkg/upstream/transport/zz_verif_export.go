package transport

// Accessors added to the package at simulation build time (never part of /repo).

// VerifSetNextQid makes the next assigned wire ID start at v (ID wrap scenario).
func (dc *TraditionalDnsConn) VerifSetNextQid(v uint16) {
	dc.queueMu.Lock()
	dc.nextQid = v
	dc.queueMu.Unlock()
}

// VerifQueueLen returns queued + reserved queries.
func (dc *TraditionalDnsConn) VerifQueueLen() (queued, reserved int) {
	dc.queueMu.Lock()
	defer dc.queueMu.Unlock()
	return len(dc.queue), dc.reservedQuery
}
