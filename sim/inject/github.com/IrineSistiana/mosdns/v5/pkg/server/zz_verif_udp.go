package server

import (
	"net"
	"net/netip"
)

// verifUDPConn is what ServeUDP needs from its socket. In simulation builds the
// parameter type of ServeUDP is rewritten from *net.UDPConn to this interface
// (build.sh), so that the real read loop runs on a simulated datagram socket;
// *net.UDPConn still satisfies it.
type verifUDPConn interface {
	ReadMsgUDPAddrPort(b, oob []byte) (n, oobn, flags int, addr netip.AddrPort, err error)
	WriteMsgUDPAddrPort(b, oob []byte, addr netip.AddrPort) (n, oobn int, err error)
}

// verifInitOob: control messages (destination address of the query) only exist on
// a real socket.
func verifInitOob(c verifUDPConn) (getSrcAddrFromOOB, writeSrcAddrToOOB, error) {
	if uc, ok := c.(*net.UDPConn); ok {
		return initOobHandler(uc)
	}
	return nil, nil, nil
}
