package fastforward

import (
	"fmt"

	"github.com/IrineSistiana/mosdns/v5/pkg/upstream"
	"go.uber.org/zap"
)

// NewForwardForVerif builds a Forward over ready-made upstreams (simulation
// builds only; construction code, not on a path of any property).
func NewForwardForVerif(us []upstream.Upstream, tags []string, concurrent int) *Forward {
	f := &Forward{
		args:         &Args{Concurrent: concurrent},
		logger:       zap.NewNop(),
		tag2Upstream: make(map[string]*upstreamWrapper),
	}
	for i, u := range us {
		tag := ""
		if i < len(tags) {
			tag = tags[i]
		}
		uw := newWrapper(i, UpstreamConfig{Tag: tag, Addr: fmt.Sprintf("sim%d", i)}, "")
		uw.u = u
		f.us = append(f.us, uw)
		if tag != "" {
			f.tag2Upstream[tag] = uw
		}
	}
	return f
}
