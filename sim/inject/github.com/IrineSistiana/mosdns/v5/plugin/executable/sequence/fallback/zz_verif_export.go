package fallback

import (
	"time"

	"github.com/IrineSistiana/mosdns/v5/plugin/executable/sequence"
	"go.uber.org/zap"
)

// NewFallbackForVerif builds the fallback plugin over two ready-made
// executables (simulation builds only; mirrors newFallbackPlugin's defaults).
func NewFallbackForVerif(primary, secondary sequence.Executable, thresholdMs int, alwaysStandby bool) sequence.Executable {
	threshold := time.Duration(thresholdMs) * time.Millisecond
	if threshold <= 0 {
		threshold = defaultFallbackThreshold
	}
	return &fallback{
		logger:               zap.NewNop(),
		primary:              primary,
		secondary:            secondary,
		fastFallbackDuration: threshold,
		alwaysStandby:        alwaysStandby,
	}
}
