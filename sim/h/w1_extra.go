package h

import (
	"context"
	"encoding/base64"
	"errors"
	"fmt"
	"io"
	"net"
	"net/http"
	"time"

	"github.com/IrineSistiana/mosdns/v5/pkg/upstream/doh"
	"github.com/quic-go/quic-go"
	"verif/sim/simnet"
	"verif/sim/simrt"
)

// ---- DoH: fake http.RoundTripper over a simnet datagram exchange ----

const dohAddr = "192.0.2.1:443"

type fakeRT struct {
	n *simnet.Net
}

func (f *fakeRT) RoundTrip(req *http.Request) (*http.Response, error) {
	// A real http.Transport (h1, h2, h3) reads the request URL only after it has
	// obtained a connection or stream slot: model that wait before looking at it.
	c, err := f.n.Dial(req.Context(), "udp", dohAddr)
	if err != nil {
		return nil, err
	}
	defer c.Close()
	if simrt.Choose(3) == 0 {
		simrt.Sleep(0, time.Duration(1+simrt.Choose(20))*time.Millisecond)
		simrt.Fault("doh_wait_for_conn")
	}
	q, err := base64.RawURLEncoding.DecodeString(req.URL.Query().Get("dns"))
	if err != nil {
		return nil, err
	}
	if dl, ok := req.Context().Deadline(); ok {
		c.SetReadDeadline(dl)
	}
	if _, err := c.Write(q); err != nil {
		return nil, err
	}
	buf := make([]byte, 65535)
	n, err := c.Read(buf)
	if err != nil {
		return nil, err
	}
	body := buf[:n]
	code := 200
	if n >= 3 && body[0] == 1 && body[1] == 2 && body[2] == 3 { // the sim server's "garbage" datagram
		code = 502
	}
	// The body arrives in pieces (an HTTP body is a stream: a Read returns what
	// has arrived so far), with or without a declared Content-Length.
	resp := &http.Response{StatusCode: code, Body: io.NopCloser(&pieceReader{b: body}), Header: http.Header{}, Request: req, ContentLength: -1}
	if simrt.Choose(3) != 0 {
		resp.ContentLength = int64(len(body))
	}
	return resp, nil
}

// pieceReader hands out its bytes in PRNG-sized pieces (biased to cuts around
// the 12-byte DNS header).
type pieceReader struct {
	b   []byte
	off int
}

func (p *pieceReader) Read(dst []byte) (int, error) {
	rest := len(p.b) - p.off
	if rest == 0 {
		return 0, io.EOF
	}
	n := rest
	switch simrt.Choose(6) {
	case 0:
		n = 1
	case 1:
		n = 11
	case 2:
		n = 12
	case 3:
		n = 13
	case 4:
		n = 1 + simrt.Choose(rest)
	}
	if n > rest {
		n = rest
	}
	if n > len(dst) {
		n = len(dst)
	}
	if n < rest {
		simrt.Fault("doh_body_in_pieces")
	}
	copy(dst, p.b[p.off:p.off+n])
	p.off += n
	return n, nil
}

type dohUp struct{ u *doh.Upstream }

func (d dohUp) ExchangeContext(ctx context.Context, m []byte) (*[]byte, error) {
	return d.u.ExchangeContext(ctx, m)
}
func (d dohUp) Close() error { return nil }

// ---- DoQ: fake quic.Connection whose streams are simnet stream pairs ----

const doqAddr = "192.0.2.1:853"

type fakeQuicConn struct {
	n       *simnet.Net
	ctx     context.Context
	cancel  context.CancelFunc
	maxStreams int
	open    int
	nextID  int64
	streams []*fakeQuicStream
}

func newFakeQuicConn(n *simnet.Net, maxStreams int) *fakeQuicConn {
	ctx, cancel := context.WithCancel(context.Background())
	return &fakeQuicConn{n: n, ctx: ctx, cancel: cancel, maxStreams: maxStreams}
}

type fakeQuicStream struct {
	c      *simnet.Conn
	qc     *fakeQuicConn
	id     int64
	rdCancelled, wrCancelled bool
	done   bool
}

func (s *fakeQuicStream) finish() {
	if !s.done {
		s.done = true
		s.qc.open--
	}
}

func (s *fakeQuicStream) StreamID() quic.StreamID { return quic.StreamID(s.id) }
func (s *fakeQuicStream) Read(p []byte) (int, error) {
	if s.rdCancelled {
		return 0, errors.New("fake quic: read cancelled")
	}
	n, err := s.c.Read(p)
	if err == io.EOF {
		s.finish()
	}
	return n, err
}
func (s *fakeQuicStream) Write(p []byte) (int, error) {
	if s.wrCancelled {
		return 0, errors.New("fake quic: write cancelled")
	}
	return s.c.Write(p)
}
func (s *fakeQuicStream) Close() error { return s.c.CloseWrite() }
func (s *fakeQuicStream) CancelRead(quic.StreamErrorCode) {
	if !s.rdCancelled {
		s.rdCancelled = true
		s.finish()
		if !s.c.IsClosed() {
			s.c.Close()
		}
	}
}
func (s *fakeQuicStream) CancelWrite(quic.StreamErrorCode) { s.wrCancelled = true }
func (s *fakeQuicStream) Context() context.Context           { return s.qc.ctx }
func (s *fakeQuicStream) SetDeadline(t time.Time) error      { return s.c.SetDeadline(t) }
func (s *fakeQuicStream) SetReadDeadline(t time.Time) error  { return s.c.SetReadDeadline(t) }
func (s *fakeQuicStream) SetWriteDeadline(t time.Time) error { return s.c.SetWriteDeadline(t) }

func (q *fakeQuicConn) OpenStream() (quic.Stream, error) {
	simrt.Yield(0)
	if q.ctx.Err() != nil {
		return nil, errors.New("fake quic: connection closed")
	}
	if q.maxStreams > 0 && q.open >= q.maxStreams {
		simrt.Probe("doq.stream_limit_hit")
		return nil, errors.New("fake quic: too many open streams")
	}
	c, err := q.n.Dial(context.Background(), "tcp", doqAddr)
	if err != nil {
		return nil, err
	}
	q.open++
	q.nextID += 4
	s := &fakeQuicStream{c: c.(*simnet.Conn), qc: q, id: q.nextID}
	q.streams = append(q.streams, s)
	return s, nil
}
func (q *fakeQuicConn) OpenStreamSync(context.Context) (quic.Stream, error) { return q.OpenStream() }
func (q *fakeQuicConn) AcceptStream(ctx context.Context) (quic.Stream, error) {
	return nil, errors.New("not supported")
}
func (q *fakeQuicConn) AcceptUniStream(context.Context) (quic.ReceiveStream, error) {
	return nil, errors.New("not supported")
}
func (q *fakeQuicConn) OpenUniStream() (quic.SendStream, error) { return nil, errors.New("not supported") }
func (q *fakeQuicConn) OpenUniStreamSync(context.Context) (quic.SendStream, error) {
	return nil, errors.New("not supported")
}
func (q *fakeQuicConn) LocalAddr() net.Addr  { return &net.UDPAddr{IP: net.IPv4(10, 0, 0, 1), Port: 5000} }
func (q *fakeQuicConn) RemoteAddr() net.Addr { return &net.UDPAddr{IP: net.IPv4(192, 0, 2, 1), Port: 853} }
func (q *fakeQuicConn) CloseWithError(quic.ApplicationErrorCode, string) error {
	simrt.Yield(0)
	q.cancel()
	for _, s := range q.streams {
		if !s.c.IsClosed() {
			s.c.Close()
		}
	}
	return nil
}
func (q *fakeQuicConn) Context() context.Context               { return q.ctx }
func (q *fakeQuicConn) ConnectionState() quic.ConnectionState  { return quic.ConnectionState{} }
func (q *fakeQuicConn) SendDatagram([]byte) error              { return errors.New("not supported") }
func (q *fakeQuicConn) ReceiveDatagram(context.Context) ([]byte, error) {
	return nil, errors.New("not supported")
}

var _ quic.Connection = (*fakeQuicConn)(nil)
var _ = fmt.Sprint
