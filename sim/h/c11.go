package h

import (
	"fmt"
	"sort"
	"time"

	"github.com/IrineSistiana/mosdns/v5/pkg/cache"
	"github.com/anishathalye/porcupine"
	"verif/sim/simrt"
)

// C11 — the cache store is safe, exact and bounded under concurrency.
//
// 2–8 tasks issue Get/Store/Flush/Len/Range on pkg/cache.Cache over few keys
// that collide in shards, with expiries around "now" and the cleaner running
// (virtual clock passes the cleaner interval). Every stored value is unique.
//
// Oracle 1: the recorded history (invoke/return stamped with a global event
// sequence) is checked with porcupine against a lossy map: Store sets, Flush
// clears, Get may always miss (and then the entry is gone), a hit must return
// the model's current value for that key, not expired at the operation's
// virtual instant. Range observations are hits without the expiry condition.
// Oracle 2: Len() <= max(size, 1024) whenever observed.
// Oracle 3 (race build): any data race report.

func init() {
	Scenarios["C11"] = &Scenario{Setup: c11Setup, Main: c11Main, Post: c11Post, Race: true}
}

type ck int

var ckShard = map[ck]uint64{}

func (k ck) Sum() uint64 { return ckShard[k] }

type c11cfg struct {
	size    int
	tasks   int
	opsPer  int
	keys    int
	bulk    bool
	mass    bool // many entries of one shard expire at once while stores / a flush hit that shard during the sweep
	cleaner time.Duration
	hist    [][]porcupine.Operation
	lenMax  int
	lenViol string
}

type c11in struct {
	Op  int // 0 get, 1 store, 2 flush, 3 peek (range observation)
	Key int
	Val int
	Exp time.Time
	Now time.Time
}

type c11out struct {
	Val int
	Ok  bool
}

var c11sizes = []int{-5, 0, 1, 10, 63, 64, 100, 1024, 1100}

func c11Setup(rc *RunCtx) simrt.Config {
	r := rc.R
	cfg, sname := drawSimConfig(r, 60000)
	c := &c11cfg{}
	c.size = c11sizes[r.Choose(len(c11sizes))]
	c.bulk = r.Choose(5) == 0
	c.mass = !c.bulk && r.Choose(8) == 0
	c.tasks = 2 + r.Choose(7)
	c.keys = 1 + r.Choose(4)
	c.opsPer = 1 + r.Choose(6)
	if c.tasks*c.opsPer > 36 {
		c.opsPer = 36 / c.tasks
	}
	c.cleaner = []time.Duration{0, 5 * time.Millisecond, time.Second}[r.Choose(3)]
	// shard placement: few shards so that keys collide
	for k := 0; k < 4000; k++ {
		delete(ckShard, ck(k))
	}
	nshard := 1 + r.Choose(3)
	for k := 0; k < c.keys; k++ {
		ckShard[ck(k)] = uint64(r.Choose(nshard)) + 64*uint64(r.Choose(1000))
	}
	rc.Cfg["strategy"] = sname
	rc.Cfg["size"] = c.size
	rc.Cfg["tasks"] = c.tasks
	rc.Cfg["keys"] = c.keys
	rc.Cfg["ops_per_task"] = c.opsPer
	rc.Cfg["bulk"] = c.bulk
	rc.Cfg["mass_expiry"] = c.mass
	rc.Cfg["cleaner_ms"] = int(c.cleaner / time.Millisecond)
	rc.Cfg["kind"] = "pkg/cache"
	rc.priv = c
	return cfg
}

func c11Bound(size int) int {
	if size < 1024 {
		return 1024
	}
	return size
}

// c11Mass: one shard holds a few long-lived entries and 200-400 entries that
// expire together; at the instant the cleaner's sweep removes them, writers
// overwrite the long-lived entries (or one task flushes). Once everything is
// quiet, a lookup must return the last value stored under its key (or nothing
// at all after the flush).
func c11Mass(rc *RunCtx, c *c11cfg) {
	cc := cache.New[ck, *int](cache.Opts{Size: 64 * 1024, CleanerInterval: time.Second})
	defer cc.Close()
	shard := uint64(simrt.Choose(64))
	nExp := 200 + simrt.Choose(200)
	nLive := 4 + simrt.Choose(12)
	soon := time.Now().Add(500 * time.Millisecond)
	far := time.Now().Add(time.Hour)
	for k := 0; k < nExp; k++ {
		ckShard[ck(1000+k)] = shard + 64*uint64(k+1)
		v := -1
		cc.Store(ck(1000+k), &v, soon)
	}
	last := make([]int, nLive) // one writer per index (a shared map would race in the race build)
	for j := 0; j < nLive; j++ {
		ckShard[ck(3000+j)] = shard + 64*uint64(2000+j)
		v := 100 + j
		cc.Store(ck(3000+j), &v, far)
		last[j] = v
	}
	flush := simrt.Choose(4) == 0
	nw := 1 + simrt.Choose(3)
	done := make(chan struct{}, 8)
	n := 0
	if flush {
		n++
		simrt.GoNamed("flusher", func() {
			simrt.Sleep(0, time.Second) // the cleaner's first tick
			if simrt.Choose(2) == 0 {
				simrt.Yield(0)
			}
			cc.Flush()
			simrt.Fault("flush_during_sweep")
			simrt.Send(0, done, struct{}{})
		})
	} else {
		for wi := 0; wi < nw; wi++ {
			wi := wi
			n++
			simrt.GoNamed(fmt.Sprintf("writer%d", wi), func() {
				simrt.Sleep(0, time.Second)
				for round := 0; round < 1+simrt.Choose(3); round++ {
					for j := wi; j < nLive; j += nw { // each key has one writer
						v := 10000*(round+1) + j
						cc.Store(ck(3000+j), &v, far)
						last[j] = v
					}
				}
				simrt.Fault("stores_during_sweep")
				simrt.Send(0, done, struct{}{})
			})
		}
	}
	for i := 0; i < n; i++ {
		simrt.Recv(0, done)
	}
	simrt.Sleep(0, 50*time.Millisecond)
	for j := 0; j < nLive && rc.Viol == nil; j++ {
		v, _, ok := cc.Get(ck(3000 + j))
		switch {
		case flush && ok:
			rc.Fail("flushed_entry_came_back", "key %d was stored before Flush returned and never stored again, but a later lookup returns %d", 3000+j, *v)
		case !flush && !ok:
			rc.Fail("stored_value_lost", "key %d: last store (value %d, expires in an hour) returned long ago, but a lookup finds nothing", 3000+j, last[j])
		case !flush && *v != last[j]:
			rc.Fail("overwritten_value_served", "key %d: lookup returns %d, which was overwritten with %d before the lookup began", 3000+j, *v, last[j])
		}
	}
	if flush && rc.Viol == nil {
		if l := cc.Len(); l != 0 {
			rc.Fail("flushed_entry_came_back", "Len()=%d after Flush returned and nothing was stored since", l)
		}
	}
	simrt.Probe("c11.mass_expiry_checked")
}

func c11Main(rc *RunCtx) {
	c := rc.priv.(*c11cfg)
	if c.mass {
		c11Mass(rc, c)
		return
	}
	cc := cache.New[ck, *int](cache.Opts{Size: c.size, CleanerInterval: c.cleaner})
	bound := c11Bound(c.size)
	if c.bulk {
		// bound check: many distinct keys, then concurrent readers
		n := 1030 + simrt.Choose(300)
		for k := 0; k < n; k++ {
			ckShard[ck(100+k)] = uint64(k)
		}
		far := time.Now().Add(time.Hour)
		for k := 0; k < n; k++ {
			v := k
			cc.Store(ck(100+k), &v, far)
			if k%97 == 0 || k == n-1 {
				if l := cc.Len(); l > bound {
					rc.Fail("capacity_exceeded", "size=%d: Len()=%d after %d stores of distinct keys exceeds max(size,1024)=%d", c.size, l, k+1, bound)
					break
				}
			}
		}
		simrt.Probe("c11.bulk")
		if rc.Viol == nil && simrt.Choose(2) == 0 {
			// the cache is at capacity: now several tasks re-store existing keys and
			// store new ones in a few shards concurrently; the bound must hold at
			// every instant
			simrt.Probe("c11.bulk_concurrent")
			nt := 2 + simrt.Choose(4)
			done := make(chan struct{}, nt)
			target := simrt.Choose(64)
			var existing []int
			for k := 0; k < n; k++ {
				if k%64 == target {
					existing = append(existing, 100+k)
				}
			}
			for j := 0; j < 200; j++ {
				ckShard[ck(5000+j)] = uint64(target)
			}
			next := 0
			for ti := 0; ti < nt; ti++ {
				nops := 5 + simrt.Choose(25)
				type op struct{ key, val int }
				var ops []op
				for i := 0; i < nops; i++ {
					if simrt.Choose(2) == 0 && len(existing) > 0 {
						ops = append(ops, op{existing[simrt.Choose(len(existing))], 7000 + i})
					} else {
						ops = append(ops, op{5000 + next, 8000 + i})
						next++
					}
				}
				simrt.GoNamed(fmt.Sprintf("storer%d", ti), func() {
					for _, o := range ops {
						v := o.val
						cc.Store(ck(o.key), &v, far)
						if l := cc.Len(); l > bound {
							rc.Fail("capacity_exceeded", "size=%d: Len()=%d exceeds max(size,1024)=%d during concurrent stores on a full cache", c.size, l, bound)
							break
						}
					}
					simrt.Send(0, done, struct{}{})
				})
			}
			for ti := 0; ti < nt; ti++ {
				simrt.Recv(0, done)
			}
		}
		cc.Close()
		return
	}
	c.hist = make([][]porcupine.Operation, c.tasks)
	done := make(chan struct{}, c.tasks)
	valSeq := 0
	for ti := 0; ti < c.tasks; ti++ {
		ti := ti
		// draw the task's script up front (from the main task) so that worker
		// tasks only execute
		type op struct {
			kind, key, val int
			expOff        time.Duration
			sleep         time.Duration
		}
		var script []op
		for i := 0; i < c.opsPer; i++ {
			o := op{kind: simrt.S.Rng().Weighted(5, 5, 1, 1, 1), key: simrt.Choose(c.keys)}
			valSeq++
			o.val = valSeq
			o.expOff = []time.Duration{-time.Millisecond, 0, time.Nanosecond, time.Millisecond, 4 * time.Millisecond, time.Hour}[simrt.Choose(6)]
			if simrt.Choose(3) == 0 {
				o.sleep = time.Duration(1+simrt.Choose(6)) * time.Millisecond
			}
			script = append(script, o)
		}
		simrt.GoNamed(fmt.Sprintf("user%d", ti), func() {
			var h []porcupine.Operation
			for _, o := range script {
				if o.sleep > 0 {
					simrt.Sleep(0, o.sleep)
				}
				now := time.Now()
				switch o.kind {
				case 0: // Get
					call := simrt.Tick()
					v, _, ok := cc.Get(ck(o.key))
					ret := simrt.Tick()
					out := c11out{Ok: ok}
					if ok {
						out.Val = *v
					}
					h = append(h, porcupine.Operation{ClientId: ti, Input: c11in{Op: 0, Key: o.key, Now: now}, Call: call, Output: out, Return: ret})
				case 1: // Store
					v := o.val
					exp := now.Add(o.expOff)
					call := simrt.Tick()
					cc.Store(ck(o.key), &v, exp)
					ret := simrt.Tick()
					h = append(h, porcupine.Operation{ClientId: ti, Input: c11in{Op: 1, Key: o.key, Val: v, Exp: exp, Now: now}, Call: call, Output: c11out{}, Return: ret})
				case 2: // Flush
					call := simrt.Tick()
					cc.Flush()
					ret := simrt.Tick()
					h = append(h, porcupine.Operation{ClientId: ti, Input: c11in{Op: 2, Key: -1, Now: now}, Call: call, Output: c11out{}, Return: ret})
				case 3: // Len
					if l := cc.Len(); l > bound {
						rc.Fail("capacity_exceeded", "Len()=%d exceeds %d", l, bound)
					}
				case 4: // Range
					call := simrt.Tick()
					type obs struct{ k, v int }
					var seen []obs
					cc.Range(func(k ck, v *int, exp time.Time) error {
						seen = append(seen, obs{int(k), *v})
						// a dump callback takes its time (it packs and writes the
						// entry): other tasks run while this shard's lock is held
						if simrt.Choose(2) == 0 {
							simrt.Yield(0)
						}
						return nil
					})
					ret := simrt.Tick()
					for _, s := range seen {
						h = append(h, porcupine.Operation{ClientId: ti, Input: c11in{Op: 3, Key: s.k, Now: now}, Call: call, Output: c11out{Val: s.v, Ok: true}, Return: ret})
					}
				}
			}
			c.hist[ti] = h
			simrt.Send(0, done, struct{}{})
		})
	}
	for i := 0; i < c.tasks; i++ {
		simrt.Recv(0, done)
	}
	cc.Close()
}

type c11state struct {
	Has bool
	Val int
	Exp time.Time
}

var c11Model = porcupine.Model{
	Partition: func(history []porcupine.Operation) [][]porcupine.Operation {
		byKey := map[int][]porcupine.Operation{}
		var flushes []porcupine.Operation
		for _, op := range history {
			in := op.Input.(c11in)
			if in.Op == 2 {
				flushes = append(flushes, op)
			} else {
				byKey[in.Key] = append(byKey[in.Key], op)
			}
		}
		keys := make([]int, 0, len(byKey))
		for k := range byKey {
			keys = append(keys, k)
		}
		sort.Ints(keys)
		var parts [][]porcupine.Operation
		for _, k := range keys {
			parts = append(parts, append(byKey[k], flushes...))
		}
		return parts
	},
	Init: func() interface{} { return c11state{} },
	Step: func(state, input, output interface{}) (bool, interface{}) {
		st := state.(c11state)
		in := input.(c11in)
		out := output.(c11out)
		switch in.Op {
		case 1: // store: no-op if already past its expiry
			if in.Now.After(in.Exp) {
				return true, st
			}
			return true, c11state{Has: true, Val: in.Val, Exp: in.Exp}
		case 2:
			return true, c11state{}
		case 0:
			if !out.Ok {
				return true, c11state{} // a miss: absent, or expired and removed
			}
			if st.Has && st.Val == out.Val && !st.Exp.Before(in.Now) {
				return true, st
			}
			return false, st
		case 3: // range observation: current value, expiry not considered
			if st.Has && st.Val == out.Val {
				return true, st
			}
			return false, st
		}
		return false, st
	},
	Equal: func(a, b interface{}) bool { return a.(c11state) == b.(c11state) },
	DescribeOperation: func(input, output interface{}) string {
		in := input.(c11in)
		out := output.(c11out)
		switch in.Op {
		case 0:
			return fmt.Sprintf("Get(%d)->(%d,%v)", in.Key, out.Val, out.Ok)
		case 1:
			return fmt.Sprintf("Store(%d,%d,exp=now%+v)", in.Key, in.Val, in.Exp.Sub(in.Now))
		case 2:
			return "Flush"
		}
		return fmt.Sprintf("Range saw (%d,%d)", in.Key, out.Val)
	},
}

func c11Post(rc *RunCtx, res simrt.Result) {
	c := rc.priv.(*c11cfg)
	if res.End != simrt.EndClean {
		rc.Inconcl = "run did not end cleanly: " + res.End.String()
		return
	}
	var all []porcupine.Operation
	for _, h := range c.hist {
		all = append(all, h...)
	}
	if len(all) == 0 {
		return
	}
	if len(all) > 60 {
		rc.Inconcl = "history too long for the linearizability check"
		return
	}
	switch porcupine.CheckOperationsTimeout(c11Model, all, 20*time.Second) {
	case porcupine.Illegal:
		var d []string
		sort.Slice(all, func(i, j int) bool { return all[i].Call < all[j].Call })
		for _, op := range all {
			d = append(d, fmt.Sprintf("[%d..%d] c%d %s", op.Call, op.Return, op.ClientId, c11Model.DescribeOperation(op.Input, op.Output)))
		}
		rc.Fail("history_not_linearizable", "no linearization of the recorded history against the lossy-map model: %v", d)
	case porcupine.Unknown:
		rc.Inconcl = "porcupine timed out"
	}
}
