// Package h is the simulation harness: scenarios (workload + faults + oracle)
// for each property, and the worker that runs seeds.
package h

import (
	"encoding/json"
	"fmt"
	"os"
	"sort"
	"strings"
	"time"

	"github.com/IrineSistiana/mosdns/v5/pkg/pool"
	"verif/sim/simnet"
	"verif/sim/simrt"
)

// Violation is a property violation found in a run.
type Violation struct {
	Class string `json:"class"` // stable identifier used by the shrinker and the known-findings file
	Msg   string `json:"msg"`
	Step  int    `json:"step"`
	AtNs  int64  `json:"at_ns"`
}

// Record is the JSON line a worker writes per run.
type Record struct {
	Prop      string         `json:"prop"`
	Seed      uint64         `json:"seed"`
	Run       int            `json:"run"`
	End       string         `json:"end"`
	EndMsg    string         `json:"end_msg,omitempty"`
	Steps     int            `json:"steps"`
	SimNs     int64          `json:"sim_ns"`
	TraceHash string         `json:"trace_hash"`
	SchedHash string         `json:"sched_hash"`
	Contended int            `json:"contended"`
	Switches  int            `json:"switches"`
	Tasks     int            `json:"tasks"`
	Edges     []uint64       `json:"edges,omitempty"`
	Probes    map[string]int `json:"probes,omitempty"`
	Faults    map[string]int `json:"faults,omitempty"`
	Cfg       map[string]any `json:"cfg,omitempty"`
	Viol      *Violation     `json:"viol,omitempty"`
	Inconcl   string         `json:"inconclusive,omitempty"`
	NChoices  int            `json:"nchoices"`
	Choices   []uint32       `json:"choices,omitempty"`
	Trace     []string       `json:"trace,omitempty"`
	NetLog    []string       `json:"netlog,omitempty"`
	Leaked    []simrt.TaskInfo `json:"leaked,omitempty"`
	Notes     []string       `json:"notes,omitempty"`
	WallUs    int64          `json:"wall_us"`
}

// RunCtx is the per-run harness context.
type RunCtx struct {
	Prop  string
	Seed  uint64
	Run   int
	R     *simrt.Rand
	Net   *simnet.Net
	Cfg   map[string]any
	Viol  *Violation
	Notes []string
	Inconcl string
	bufs  *bufTracker
	Verbose bool
	priv    any
	held    []heldBuf // reply buffers handed to harness callers (never released by them)
	// StrictBufs: releasing one buffer twice is a violation. The tracking
	// allocator never recycles memory, so "one buffer, two owners" (the real
	// pool hands a twice-released buffer to two users, whose messages then
	// overwrite each other) cannot show in any other way.
	StrictBufs bool
}

type heldBuf struct {
	b   *[]byte
	who string
}

// checkHeld reports a reply buffer that was released to the pool by somebody
// else after it had been returned to its caller.
func (rc *RunCtx) checkHeld() {
	if rc.bufs == nil || raceEnabled {
		return
	}
	for _, h := range rc.held {
		if rc.bufs.released[h.b] {
			rc.Fail("reply_buffer_released_after_return", "%s: the reply buffer returned to the caller was later released to the pool by the transport (the caller still owns it)", h.who)
			return
		}
	}
}

// Fail records the first violation of the run and aborts the simulation.
func (rc *RunCtx) Fail(class, format string, a ...any) {
	if rc.Viol != nil {
		return
	}
	v := &Violation{Class: class, Msg: fmt.Sprintf(format, a...)}
	if simrt.S != nil {
		v.Step = simrt.S.Steps()
		v.AtNs = int64(simrt.S.Elapsed())
	}
	rc.Viol = v
	simrt.Abort("violation: " + class)
}

func (rc *RunCtx) Note(format string, a ...any) {
	if len(rc.Notes) < 200 {
		rc.Notes = append(rc.Notes, fmt.Sprintf(format, a...))
	}
}

// Scenario is the workload+oracle of one property.
type Scenario struct {
	// Setup draws the swarm configuration (from rc.R) and returns the scheduler config.
	Setup func(rc *RunCtx) simrt.Config
	// Main runs as task 0.
	Main func(rc *RunCtx)
	// Post runs after the simulation ended (outside any task) and may add a violation.
	Post func(rc *RunCtx, res simrt.Result)
	// LeakOK: a run that ends stuck/with leaked tasks is not by itself a violation.
	Race bool
}

var Scenarios = map[string]*Scenario{}

// ---- buffer tracking allocator ----

type bufTracker struct {
	live     map[*[]byte]int
	released map[*[]byte]bool
	DoubleRelease int
	n        int
}

var (
	origGet     = pool.GetBuf
	origRelease = pool.ReleaseBuf
)

//go:norace
func (rc *RunCtx) installBufs() {
	bt := &bufTracker{live: map[*[]byte]int{}, released: map[*[]byte]bool{}}
	rc.bufs = bt
	if raceEnabled {
		return // the tracking allocator shares state between tasks; keep the race build clean
	}
	pool.GetBuf = func(size int) *[]byte {
		b := make([]byte, size)
		bt.n++
		bt.live[&b] = bt.n
		return &b
	}
	pool.ReleaseBuf = func(b *[]byte) {
		if bt.released[b] {
			bt.DoubleRelease++
			simrt.Probe("buf.double_release")
			if rc.StrictBufs {
				rc.Fail("buffer_released_twice", "a %d-byte message buffer was released to the pool twice: the pool will hand it to two users at once, whose messages then overwrite each other", cap(*b))
			}
			return
		}
		bt.released[b] = true
		delete(bt.live, b)
		s := (*b)[:cap(*b)]
		for i := range s {
			s[i] = 0xDD
		}
	}
}

func restoreBufs() {
	pool.GetBuf = origGet
	pool.ReleaseBuf = origRelease
}

// Released reports whether b was handed back to the pool.
//
//go:norace
func (rc *RunCtx) Released(b *[]byte) bool { return rc.bufs.released[b] }

// ---- helpers ----

func fnv(parts ...string) uint64 {
	h := uint64(14695981039346656037)
	for _, p := range parts {
		for i := 0; i < len(p); i++ {
			h = (h ^ uint64(p[i])) * 1099511628211
		}
		h = (h ^ 0xff) * 1099511628211
	}
	return h
}

func runSeed(seed uint64, prop string, run int) uint64 {
	return fnv(fmt.Sprint(seed), prop, fmt.Sprint(run))
}

// drawSimConfig draws the scheduler strategy for a run.
func drawSimConfig(r *simrt.Rand, maxSteps int) (simrt.Config, string) {
	cfg := simrt.Config{MaxSteps: maxSteps}
	name := ""
	switch r.Weighted(4, 4, 2, 1) {
	case 0:
		cfg.Strategy = simrt.StratUniform
		name = "uniform"
	case 1:
		cfg.Strategy = simrt.StratSticky
		cfg.StickyK = []int{2, 4, 8, 16}[r.Choose(4)]
		name = fmt.Sprintf("sticky%d", cfg.StickyK)
	case 2:
		cfg.Strategy = simrt.StratPCT
		cfg.PCTDepth = 1 + r.Choose(3)
		cfg.PCTSteps = []int{50, 200, 600}[r.Choose(3)]
		name = fmt.Sprintf("pct%d", cfg.PCTDepth)
	default:
		cfg.Strategy = simrt.StratRR
		name = "rr"
	}
	// timer channel semantics: Go < 1.23 (what mosdns' "go 1.22.0" go.mod selects
	// in a real build) two times out of three, Go 1.23+ otherwise
	cfg.OldTimers = r.Choose(3) != 0
	if cfg.OldTimers {
		name += "+oldtimers"
	}
	return cfg, name
}

func formatTrace(steps []simrt.Step, tasks []*simrt.Task, limit int) []string {
	var out []string
	from := 0
	if limit > 0 && len(steps) > limit {
		from = len(steps) - limit
		out = append(out, fmt.Sprintf("... %d earlier steps omitted", from))
	}
	for i := from; i < len(steps); i++ {
		s := steps[i]
		nm := "?"
		if s.Task < len(tasks) {
			nm = tasks[s.Task].Name
		}
		out = append(out, fmt.Sprintf("%d t%d(%s) %s n=%d", i+1, s.Task, nm, simrt.SiteName(s.Site), s.N))
	}
	return out
}

func formatNetLog(n *simnet.Net, limit int) []string {
	if n == nil {
		return nil
	}
	var out []string
	from := 0
	if limit > 0 && len(n.Log) > limit {
		from = len(n.Log) - limit
	}
	for _, e := range n.Log[from:] {
		out = append(out, fmt.Sprintf("step=%d t=%v conn=%d%s %s n=%d %v", e.Step, e.At, e.Conn, e.Side, e.Kind, e.N, e.Tag))
	}
	return out
}

func sortedKeys(m map[string]int) []string {
	k := make([]string, 0, len(m))
	for s := range m {
		k = append(k, s)
	}
	sort.Strings(k)
	return k
}

func writeJSONLine(f *os.File, v any) {
	b, err := json.Marshal(v)
	if err != nil {
		panic(err)
	}
	b = append(b, '\n')
	f.Write(b)
}

func envInt(name string, def int) int {
	s := os.Getenv(name)
	if s == "" {
		return def
	}
	var v int
	fmt.Sscan(s, &v)
	return v
}

func hx(v uint64) string { return fmt.Sprintf("%016x", v) }

var _ = strings.Join
var _ = time.Second

// thorough reports whether the run belongs to the thorough tier (VERIF_TIER),
// in which scenarios widen their bounds (more callers, longer histories, larger
// dumps and programs).
func thorough() bool { return os.Getenv("VERIF_TIER") == "thorough" }

// widen returns hi in the thorough tier and lo otherwise.
func widen(lo, hi int) int {
	if thorough() {
		return hi
	}
	return lo
}
