package h

import (
	"bytes"
	"context"
	"encoding/base64"
	"encoding/binary"
	"fmt"
	"net"
	"net/http"
	"net/http/httptest"
	"net/netip"
	"sort"
	"strings"
	"time"

	"github.com/IrineSistiana/mosdns/v5/coremain"
	"github.com/IrineSistiana/mosdns/v5/pkg/pool"
	"github.com/IrineSistiana/mosdns/v5/pkg/query_context"
	"github.com/IrineSistiana/mosdns/v5/pkg/server"
	"github.com/IrineSistiana/mosdns/v5/pkg/server_handler"
	_ "github.com/IrineSistiana/mosdns/v5/plugin"
	"github.com/IrineSistiana/mosdns/v5/plugin/executable/arbitrary"
	cacheplug "github.com/IrineSistiana/mosdns/v5/plugin/executable/cache"
	"github.com/IrineSistiana/mosdns/v5/plugin/executable/ecs_handler"
	fastforward "github.com/IrineSistiana/mosdns/v5/plugin/executable/forward"
	"github.com/IrineSistiana/mosdns/v5/plugin/executable/hosts"
	"github.com/IrineSistiana/mosdns/v5/plugin/executable/redirect"
	"github.com/IrineSistiana/mosdns/v5/plugin/executable/sequence"
	"github.com/IrineSistiana/mosdns/v5/plugin/executable/sequence/fallback"
	"github.com/miekg/dns"
	"go.uber.org/zap"
	"verif/sim/simnet"
	"verif/sim/simrt"
)

// ---- W2: resolver world (C03, C15) ----
//
// simulated clients -> {EntryHandler.Handle with UDP meta | real ServeTCP on a
// simnet listener | real HttpHandler GET/POST} -> EntryHandler -> a sequence
// parsed by the real NewSequence from generated rule text over real plugins ->
// real forward (NewForward -> NewUpstream -> transports) -> simnet upstream
// servers that echo the question.

func init() {
	Scenarios["C03"] = &Scenario{Setup: func(rc *RunCtx) simrt.Config { return w2Setup(rc, "C03") }, Main: w2Main, Post: w2Post}
	Scenarios["C15"] = &Scenario{Setup: func(rc *RunCtx) simrt.Config { return w2Setup(rc, "C15") }, Main: w2Main, Post: w2Post}
}

var w2Upstreams = []string{"192.0.2.101", "192.0.2.102", "192.0.2.103"}

type w2query struct {
	Client  int
	Seq     int
	Msg     *dns.Msg
	Wire    []byte
	Malformed string // "" = well-formed
	HasOpt  bool
	OptSize uint16
	DO      bool
	Opts    []uint16 // option codes the client sent
	SentAt  time.Duration
	Replies [][]byte
	ReplyAt time.Duration
	NoReply bool // transport reported "no DNS reply" (nil payload / conn closed / HTTP error)
	Done    bool
}

type w2chainRec struct {
	Err  error
	Resp *dns.Msg // deep copy of what the chain left (nil = none)
	OrigQ dns.Question
	ID   uint16
	// option codes of the upstream OPT that belongs to THIS query's own exchange
	// (nil: the foreground path had no upstream reply, e.g. a cache hit)
	UpCodes map[uint16]bool
	StartAt, EndAt time.Duration // the chain run
}

// w2upReply: what one upstream reply carried. Every upstream reply embeds its
// nonce in its records (address bytes, TXT text, SOA serial), so the response a
// chain run leaves can be traced to the upstream reply it came from without
// asking the code under test.
type w2upReply struct {
	Codes map[uint16]bool
	At    time.Duration
}

// w2nonceOf extracts the upstream reply nonce from a response (0 = none).
func w2nonceOf(m *dns.Msg) int {
	if m == nil {
		return 0
	}
	for _, rr := range m.Answer {
		switch x := rr.(type) {
		case *dns.A:
			if ip := x.A.To4(); ip != nil && ip[0] == 100 {
				return int(ip[1])<<8 | int(ip[2])
			}
		case *dns.AAAA:
			if ip := x.AAAA.To16(); ip != nil && ip[0] == 0xfd && ip[1] == 0x01 {
				return int(ip[12])<<8 | int(ip[13])
			}
		case *dns.TXT:
			n := 0
			if len(x.Txt) > 0 {
				if _, err := fmt.Sscanf(x.Txt[0], "n%d-", &n); err == nil && n > 0 {
					return n
				}
			}
		}
	}
	for _, rr := range m.Ns {
		if x, ok := rr.(*dns.SOA); ok && x.Mbox == "nonce.test." {
			return int(x.Serial)
		}
	}
	return 0
}

type w2upq struct {
	Up     string
	Net    string
	NOpt   int
	Codes  []uint16
	DO     bool
	Q      dns.Question
}

type w2cfg struct {
	mode     string
	rules    []sequence.RuleArgs
	lazy     int
	nClients int
	transports []int // per client: 0 udp-meta, 1 tcp, 2 doh get, 3 doh post, 4 udp (real ServeUDP on a simulated socket)
	perClient []int
	upBehav  []int // weights index per upstream
	fwdCodes map[uint16]bool // option codes some forward_edns0opt rule forwards
	ecsAny   bool
	ecsForward bool
	queries  []*w2query
	chain    map[string]*w2chainRec
	upqs     []*w2upq
	upReplies map[int]*w2upReply
	upNonce  int
	caches   []*cacheplug.Cache
	closers  []func()
	pMalformed int
	concurrent int
	gap      time.Duration // pause before the second round of the same questions (0 = none)
}

func w2Setup(rc *RunCtx, mode string) simrt.Config {
	r := rc.R
	cfg, sname := drawSimConfig(r, 400000)
	cfg.TraceLimit = 3000
	c := &w2cfg{mode: mode, chain: map[string]*w2chainRec{}, fwdCodes: map[uint16]bool{}}
	c.lazy = []int{0, 0, 3600}[r.Choose(3)]
	c.nClients = 1 + r.Choose(widen(4, 8))
	for i := 0; i < c.nClients; i++ {
		c.transports = append(c.transports, r.Choose(5))
		c.perClient = append(c.perClient, 1+r.Choose(widen(8, 16)))
	}
	for range w2Upstreams {
		c.upBehav = append(c.upBehav, r.Choose(3))
	}
	c.concurrent = 1 + r.Choose(3)
	c.gap = []time.Duration{0, 2 * time.Second, 7 * time.Second, 40 * time.Second}[r.Choose(4)]
	c.pMalformed = []int{0, 0, 15}[r.Choose(3)]
	c.rules = w2GenRules(r, c)
	var txt []string
	for _, ra := range c.rules {
		txt = append(txt, fmt.Sprintf("{%s -> %s}", strings.Join(ra.Matches, " & "), ra.Exec))
	}
	rc.Cfg["strategy"] = sname
	rc.Cfg["kind"] = "resolver world"
	rc.Cfg["rules"] = strings.Join(txt, " ")
	rc.Cfg["nrules"] = len(c.rules)
	rc.Cfg["lazy"] = c.lazy
	rc.Cfg["clients"] = c.nClients
	rc.Cfg["transports"] = c.transports
	rc.Cfg["upstream_behaviour"] = c.upBehav
	rc.priv = c
	return cfg
}

var w2names = []string{"a.test.", "A.Test.", "b.test.", "h.test.", "x.test.", "r.test.", "sub.r.test.", "t.test.", "a.test.", "b.test."}

func w2GenRules(r *simrt.Rand, c *w2cfg) []sequence.RuleArgs {
	var rules []sequence.RuleArgs
	n := 1 + r.Choose(widen(5, 8))
	matchers := []string{"qname a.test", "qname domain:r.test", "qtype 1", "qtype 28 257", "has_resp", "!has_resp", "rcode 2", "qclass 1", "_true", "_false", "! qname h.test"}
	for i := 0; i < n; i++ {
		var ra sequence.RuleArgs
		nm := r.Weighted(5, 3, 1)
		for j := 0; j < nm; j++ {
			ra.Matches = append(ra.Matches, matchers[r.Choose(len(matchers))])
		}
		var w []int
		if c.mode == "C15" {
			w = []int{4, 1, 1, 1, 2, 3, 1, 4, 4, 0, 1, 1, 1, 2}
		} else {
			w = []int{4, 3, 2, 2, 2, 2, 2, 1, 1, 1, 1, 1, 1, 1}
		}
		switch r.Weighted(w...) {
		case 0:
			ra.Exec = "$cache"
		case 1:
			ra.Exec = "$redirect"
		case 2:
			ra.Exec = "$hosts"
		case 3:
			ra.Exec = "$arbitrary"
		case 4:
			ra.Exec = "black_hole 10.9.9.9 ::9"
		case 5:
			ra.Exec = []string{"ttl 60", "ttl 10-100", "ttl 1"}[r.Choose(3)]
		case 6:
			ra.Exec = []string{"prefer_ipv4", "prefer_ipv6"}[r.Choose(2)]
		case 7:
			k := r.Choose(5)
			ra.Exec = []string{"$ecs_forward", "$ecs_preset", "$ecs_send", "$ecs_forward_preset", "$ecs_forward_send"}[k]
			c.ecsAny = true
			if k == 0 || k >= 3 {
				c.ecsForward = true
			}
		case 8:
			codes := [][]uint16{{10}, {12}, {10, 12}, {65002}, {8, 10}}[r.Choose(5)]
			var s []string
			for _, cd := range codes {
				c.fwdCodes[cd] = true
				s = append(s, fmt.Sprint(cd))
			}
			ra.Exec = "forward_edns0opt " + strings.Join(s, " ")
		case 9:
			ra.Exec = []string{"reject", "reject 3"}[r.Choose(2)]
		case 10:
			ra.Exec = "accept"
			if len(ra.Matches) == 0 {
				ra.Matches = []string{"has_resp"}
			}
		case 11:
			ra.Exec = "$fb"
		case 13:
			// a forwarder in the middle of the chain: what it sets may be replaced
			// by a later rule (local answer, second forward)
			ra.Exec = "$fwd"
		default:
			ra.Exec = "ecs 1.2.3.4"
			c.ecsAny = true
		}
		rules = append(rules, ra)
	}
	// usually end with a forwarder
	switch r.Weighted(6, 2, 1) {
	case 0:
		rules = append(rules, sequence.RuleArgs{Matches: []string{"!has_resp"}, Exec: "$fwd"})
	case 1:
		rules = append(rules, sequence.RuleArgs{Exec: "$fb"})
	}
	return rules
}

// ---- sim upstream ----

func (c *w2cfg) serveUpstream(rc *RunCtx, up int, network string) func(sc *simnet.Conn) {
	return func(sc *simnet.Conn) {
		for {
			raw, err := sc.ReadMsg()
			if err != nil {
				if !sc.IsClosed() {
					sc.Close()
				}
				return
			}
			q := new(dns.Msg)
			if err := q.Unpack(raw); err != nil || len(q.Question) != 1 {
				continue
			}
			rec := &w2upq{Up: w2Upstreams[up], Net: network, Q: q.Question[0]}
			for _, rr := range q.Extra {
				if o, ok := rr.(*dns.OPT); ok {
					rec.NOpt++
					rec.DO = o.Do()
					for _, op := range o.Option {
						rec.Codes = append(rec.Codes, op.Option())
					}
				}
			}
			c.upqs = append(c.upqs, rec)
			// behaviour
			var w []int
			switch c.upBehav[up] {
			case 0:
				w = []int{10, 0, 0, 0, 0, 1}
			case 1:
				w = []int{6, 2, 1, 1, 1, 2}
			default:
				w = []int{2, 3, 3, 1, 2, 1}
			}
			b := simrt.S.Rng().Weighted(w...)
			if d := simrt.Choose(4); d > 0 {
				simrt.Sleep(0, []time.Duration{0, time.Millisecond, 30 * time.Millisecond, 700 * time.Millisecond}[d])
			}
			if sc.IsClosed() {
				return
			}
			switch b {
			case 2:
				simrt.Fault("upstream_silent")
				continue
			case 3:
				simrt.Fault("upstream_garbage")
				if sc.Stream {
					sc.WriteMsg([]byte{raw[0], raw[1], 0x80, 0, 0, 1, 0, 9, 0, 0, 0, 0, 0xc0}, nil)
				} else {
					sc.WriteMsg([]byte{raw[0], raw[1], 0x80, 0, 0, 1, 0, 9, 0, 0, 0, 0, 0xc0}, nil)
				}
				continue
			case 4:
				if sc.Stream {
					simrt.Fault("upstream_close")
					sc.Close()
					return
				}
				simrt.Fault("upstream_silent")
				continue
			}
			r := new(dns.Msg)
			r.SetReply(q)
			r.RecursionAvailable = true
			name := q.Question[0].Name
			nrec := simrt.Choose(4)
			if b == 5 {
				nrec = 30 + simrt.Choose(40) // large answer
				simrt.Fault("upstream_large_answer")
			}
			if b == 1 {
				// incl. 12-bit rcodes (BADVERS/BADSIG 16, BADCOOKIE 23), which only fit with an OPT
				r.Rcode = []int{dns.RcodeServerFailure, dns.RcodeNameError, dns.RcodeRefused, dns.RcodeNotImplemented, 9, 16, 23}[simrt.Choose(7)]
				nrec = 0
			}
			ttl := []uint32{0, 1, 30, 300, 3600}[simrt.Choose(5)]
			c.upNonce++
			nonce := c.upNonce & 0xffff
			for i := 0; i < nrec; i++ {
				switch q.Question[0].Qtype {
				case dns.TypeA:
					r.Answer = append(r.Answer, &dns.A{Hdr: dns.RR_Header{Name: name, Rrtype: dns.TypeA, Class: dns.ClassINET, Ttl: ttl}, A: net.IPv4(100, byte(nonce>>8), byte(nonce), byte(i))})
				case dns.TypeAAAA:
					r.Answer = append(r.Answer, &dns.AAAA{Hdr: dns.RR_Header{Name: name, Rrtype: dns.TypeAAAA, Class: dns.ClassINET, Ttl: ttl}, AAAA: net.ParseIP(fmt.Sprintf("fd01::%x:%x", nonce, i))})
				default:
					r.Answer = append(r.Answer, &dns.TXT{Hdr: dns.RR_Header{Name: name, Rrtype: dns.TypeTXT, Class: dns.ClassINET, Ttl: ttl}, Txt: []string{fmt.Sprintf("n%d-up%d-%d-%s", nonce, up, i, strings.Repeat("x", simrt.Choose(60)))}})
				}
			}
			if simrt.Choose(3) == 0 || nrec == 0 {
				r.Ns = append(r.Ns, &dns.SOA{Hdr: dns.RR_Header{Name: "test.", Rrtype: dns.TypeSOA, Class: dns.ClassINET, Ttl: ttl}, Ns: "ns.test.", Mbox: "nonce.test.", Serial: uint32(nonce), Refresh: 1, Retry: 1, Expire: 1, Minttl: 60})
			}
			upr := &w2upReply{Codes: map[uint16]bool{}}
			if c.upReplies == nil {
				c.upReplies = map[int]*w2upReply{}
			}
			c.upReplies[nonce] = upr
			if simrt.Choose(3) != 0 || r.Rcode > 0xF {
				if r.Rcode > 0xF {
					simrt.Fault("upstream_extended_rcode")
				}
				o := new(dns.OPT)
				o.Hdr.Name, o.Hdr.Rrtype = ".", dns.TypeOPT
				o.SetUDPSize(1232)
				if simrt.Choose(2) == 0 {
					o.Option = append(o.Option, &dns.EDNS0_PADDING{Padding: make([]byte, 8)})
				}
				if simrt.Choose(2) == 0 {
					o.Option = append(o.Option, &dns.EDNS0_COOKIE{Code: dns.EDNS0COOKIE, Cookie: "0102030405060708a1a2a3a4a5a6a7a8"})
				}
				if simrt.Choose(2) == 0 {
					o.Option = append(o.Option, &dns.EDNS0_SUBNET{Code: dns.EDNS0SUBNET, Family: 1, SourceNetmask: 24, SourceScope: 24, Address: net.IPv4(1, 2, 3, 0).To4()})
				}
				if simrt.Choose(3) == 0 {
					o.Option = append(o.Option, &dns.EDNS0_LOCAL{Code: 65002, Data: []byte{1, 2, 3}})
				}
				if simrt.Choose(2) == 0 {
					o.SetDo()
				}
				r.Extra = append(r.Extra, o)
				for _, op := range o.Option {
					upr.Codes[op.Option()] = true
				}
				if simrt.Choose(4) == 0 {
					// RFC 6891 does not require the OPT to be the last additional record
					r.Extra = append(r.Extra, &dns.A{Hdr: dns.RR_Header{Name: "glue.test.", Rrtype: dns.TypeA, Class: dns.ClassINET, Ttl: ttl}, A: net.IPv4(10, 3, 3, 3)})
					simrt.Probe("w2.upstream_opt_not_last")
				}
				simrt.Probe("w2.upstream_reply_with_opt")
			}
			if simrt.Choose(12) == 0 {
				// an upstream may set TC on whatever it sends (it cut the answer to the
				// size mosdns advertised, not to what mosdns' client can take)
				r.Truncated = true
				simrt.Fault("upstream_reply_with_tc")
			}
			out, err := r.Pack()
			if err != nil {
				continue
			}
			if !sc.Stream && len(out) > 1232 {
				// a UDP server truncates
				r.Truncate(1232)
				out, _ = r.Pack()
			}
			upr.At = simrt.S.Elapsed()
			sc.WriteMsg(out, nil)
		}
	}
}

// ---- plugin registry and entry ----

type w2recorder struct {
	c   *w2cfg
	rc  *RunCtx
	seq *sequence.Sequence
}

func w2key(addr netip.Addr, id uint16) string { return fmt.Sprintf("%s#%d", addr, id) }

func (e *w2recorder) Exec(ctx context.Context, qCtx *query_context.Context) error {
	orig := qCtx.QQuestion()
	id := qCtx.Q().Id
	t0 := simrt.S.Elapsed()
	err := e.seq.Exec(ctx, qCtx)
	rec := &w2chainRec{Err: err, OrigQ: orig, ID: id, StartAt: t0, EndAt: simrt.S.Elapsed()}
	if r := qCtx.R(); r != nil {
		rec.Resp = r.Copy()
		// layer 2: whatever the chain leaves carries the query's ID and question
		if e.c.mode == "C03" && err == nil {
			if r.Id != id {
				e.rc.Fail("chain_response_wrong_id", "query ID %d (%s): the plugin chain left a response with ID %d [%s]", id, orig.String(), r.Id, e.rc.Cfg["rules"])
			} else if len(r.Question) != 1 || r.Question[0] != orig {
				e.rc.Fail("chain_response_wrong_question", "query %q type %d class %d: the plugin chain left a response for %v [%s]", orig.Name, orig.Qtype, orig.Qclass, r.Question, e.rc.Cfg["rules"])
			}
		}
	}
	if uo := qCtx.UpstreamOpt(); uo != nil {
		rec.UpCodes = map[uint16]bool{}
		for _, o := range uo.Option {
			rec.UpCodes[o.Option()] = true
		}
	}
	e.c.chain[w2key(qCtx.ServerMeta.ClientAddr, id)] = rec
	return err
}

func (c *w2cfg) build(rc *RunCtx) (*server_handler.EntryHandler, error) {
	reg := map[string]any{}
	m := coremain.NewTestMosdnsWithPlugins(reg)
	cp := cacheplug.NewCache(&cacheplug.Args{Size: 1024, LazyCacheTTL: c.lazy}, cacheplug.Opts{})
	c.caches = append(c.caches, cp)
	c.closers = append(c.closers, func() { cp.Close() })
	reg["cache"] = cp
	rd, err := redirect.NewRedirect(&redirect.Args{Rules: []string{"a.test b.test", "domain:r.test t.test"}})
	if err != nil {
		return nil, err
	}
	reg["redirect"] = rd
	hs, err := hosts.NewHosts(&hosts.Args{Entries: []string{"h.test 10.1.1.1 fd00::1", "a.test 10.1.1.2"}})
	if err != nil {
		return nil, err
	}
	reg["hosts"] = hs
	ar, err := arbitrary.NewArbitrary(&arbitrary.Args{Rules: []string{"x.test. 60 IN A 1.2.3.4", "x.test. 60 IN TXT \"arb\"", "b.test. 30 IN AAAA ::5"}})
	if err != nil {
		return nil, err
	}
	reg["arbitrary"] = ar
	for name, a := range map[string]ecs_handler.Args{"ecs_forward": {Forward: true}, "ecs_preset": {Preset: "9.8.7.6"}, "ecs_send": {Send: true},
		"ecs_forward_preset": {Forward: true, Preset: "9.8.7.6"}, "ecs_forward_send": {Forward: true, Send: true}} {
		h, err := ecs_handler.NewHandler(a)
		if err != nil {
			return nil, err
		}
		reg[name] = h
	}
	mkFwd := func(addrs ...string) (*fastforward.Forward, error) {
		args := &fastforward.Args{Concurrent: c.concurrent}
		for _, a := range addrs {
			args.Upstreams = append(args.Upstreams, fastforward.UpstreamConfig{Addr: a})
		}
		f, err := fastforward.NewForward(args, fastforward.Opts{})
		if err == nil {
			c.closers = append(c.closers, func() { f.Close() })
		}
		return f, err
	}
	f1, err := mkFwd("udp://"+w2Upstreams[0], "tcp://"+w2Upstreams[1], "tcp+pipeline://"+w2Upstreams[2])
	if err != nil {
		return nil, err
	}
	f2, err := mkFwd("tcp://"+w2Upstreams[2], "udp://"+w2Upstreams[1])
	if err != nil {
		return nil, err
	}
	reg["fwd"] = f1
	reg["fwd2"] = f2
	reg["fb"] = fallback.NewFallbackForVerif(f1, f2, []int{0, 50, 1000}[simrt.Choose(3)], simrt.Choose(2) == 0)
	seq, err := sequence.NewSequence(sequence.NewBQ(m, zap.NewNop()), c.rules)
	if err != nil {
		return nil, err
	}
	c.closers = append(c.closers, func() { seq.Close() })
	eh := server_handler.NewEntryHandler(server_handler.EntryHandlerOpts{Entry: &w2recorder{c: c, rc: rc, seq: seq}})
	return eh, nil
}

// ---- client queries ----

func (c *w2cfg) genQuery(client, seq int, id uint16) *w2query {
	wq := &w2query{Client: client, Seq: seq}
	q := new(dns.Msg)
	name := w2names[simrt.Choose(len(w2names))]
	if simrt.Choose(25) == 0 {
		// a 255-octet name: 3 labels of 63 + one of 61 (+ length octets + root)
		name = strings.Repeat("a", 63) + "." + strings.Repeat("b", 63) + "." + strings.Repeat("c", 63) + "." + strings.Repeat("d", 61) + "."
	}
	qtype := []uint16{dns.TypeA, dns.TypeA, dns.TypeAAAA, dns.TypeAAAA, 257, 284, dns.TypeTXT, dns.TypeA + 256*2, 65280}[simrt.Choose(9)]
	q.SetQuestion(name, qtype)
	q.Question[0].Qclass = []uint16{dns.ClassINET, dns.ClassINET, dns.ClassINET, dns.ClassCHAOS, dns.ClassANY}[simrt.Choose(5)]
	q.Id = id
	q.RecursionDesired = simrt.Choose(2) == 0
	q.AuthenticatedData = simrt.Choose(4) == 0
	q.CheckingDisabled = simrt.Choose(4) == 0
	if simrt.Choose(2) == 0 || c.mode == "C15" && simrt.Choose(3) != 0 {
		o := new(dns.OPT)
		o.Hdr.Name, o.Hdr.Rrtype = ".", dns.TypeOPT
		wq.OptSize = []uint16{0, 512, 513, 1232, 4096, 65535}[simrt.Choose(6)]
		o.SetUDPSize(wq.OptSize)
		if simrt.Choose(2) == 0 {
			o.SetDo()
			wq.DO = true
		}
		if simrt.Choose(2) == 0 {
			o.Option = append(o.Option, &dns.EDNS0_COOKIE{Code: dns.EDNS0COOKIE, Cookie: "1122334455667788"})
			wq.Opts = append(wq.Opts, 10)
		}
		if simrt.Choose(3) == 0 {
			o.Option = append(o.Option, &dns.EDNS0_PADDING{Padding: make([]byte, 4)})
			wq.Opts = append(wq.Opts, 12)
		}
		if simrt.Choose(3) == 0 {
			o.Option = append(o.Option, &dns.EDNS0_SUBNET{Code: dns.EDNS0SUBNET, Family: 1, SourceNetmask: 24, Address: net.IPv4(5, 6, 7, 0).To4()})
			wq.Opts = append(wq.Opts, 8)
		}
		if simrt.Choose(4) == 0 {
			o.Option = append(o.Option, &dns.EDNS0_LOCAL{Code: 65002, Data: []byte{9}})
			wq.Opts = append(wq.Opts, 65002)
		}
		q.Extra = append(q.Extra, o)
		wq.HasOpt = true
	}
	if simrt.Choose(100) < c.pMalformed {
		switch simrt.Choose(5) {
		case 4:
			// two OPT pseudo-records (RFC 6891 allows one): the first carries options
			o1 := new(dns.OPT)
			o1.Hdr.Name, o1.Hdr.Rrtype = ".", dns.TypeOPT
			o1.SetUDPSize(4096)
			o1.Option = append(o1.Option, &dns.EDNS0_COOKIE{Code: dns.EDNS0COOKIE, Cookie: "aabbccddeeff0011"}, &dns.EDNS0_LOCAL{Code: 65001, Data: []byte{7}})
			o2 := new(dns.OPT)
			o2.Hdr.Name, o2.Hdr.Rrtype = ".", dns.TypeOPT
			o2.SetUDPSize(1232)
			q.Extra = []dns.RR{o1, o2}
			wq.Malformed = "two OPT records"
		case 0:
			q.Response = true
			wq.Malformed = "QR=1"
		case 1:
			q.Question = append(q.Question, dns.Question{Name: "second.test.", Qtype: dns.TypeA, Qclass: dns.ClassINET})
			wq.Malformed = "two questions"
		case 2:
			q.Answer = append(q.Answer, &dns.A{Hdr: dns.RR_Header{Name: name, Rrtype: dns.TypeA, Class: dns.ClassINET, Ttl: 1}, A: net.IPv4(1, 1, 1, 1)})
			wq.Malformed = "answer record in query"
		default:
			q.Extra = append(q.Extra, &dns.A{Hdr: dns.RR_Header{Name: "e1.", Rrtype: dns.TypeA, Class: dns.ClassINET, Ttl: 1}, A: net.IPv4(1, 1, 1, 1)},
				&dns.A{Hdr: dns.RR_Header{Name: "e2.", Rrtype: dns.TypeA, Class: dns.ClassINET, Ttl: 1}, A: net.IPv4(1, 1, 1, 2)})
			wq.Malformed = "more than one additional record"
		}
		simrt.Fault("malformed_query")
	}
	wq.Msg = q
	wq.Wire = packOrPanic(q)
	return wq
}

func w2Main(rc *RunCtx) {
	c := rc.priv.(*w2cfg)
	for i, a := range w2Upstreams {
		rc.Net.Handle("udp", a+":53", c.serveUpstream(rc, i, "udp"))
		rc.Net.Handle("tcp", a+":53", c.serveUpstream(rc, i, "tcp"))
	}
	eh, err := c.build(rc)
	if err != nil {
		rc.Fail("config_rejected", "generated configuration was refused: %v [%s]", err, rc.Cfg["rules"])
		return
	}
	l := rc.Net.Listen("tcp", "10.0.0.53:53")
	srvDone := make(chan struct{}, 1)
	simrt.GoNamed("ServeTCP", func() {
		server.ServeTCP(l, eh, server.TCPServerOpts{IdleTimeout: 8 * time.Second})
		simrt.Send(0, srvDone, struct{}{})
	})
	pl := rc.Net.ListenPacket("10.0.0.53:53")
	udpDone := make(chan struct{}, 1)
	simrt.GoNamed("ServeUDP", func() {
		server.ServeUDP(pl, eh, server.UDPServerOpts{})
		simrt.Send(0, udpDone, struct{}{})
	})
	hh := server.NewHttpHandler(eh, server.HttpHandlerOpts{})
	done := make(chan struct{}, c.nClients)
	for ci := 0; ci < c.nClients; ci++ {
		ci := ci
		// unique IDs per client, always including the extremes
		ids := []uint16{0, 0xFFFF}
		for len(ids) < c.perClient[ci] {
			ids = append(ids, uint16(1+simrt.Choose(65000)))
		}
		sort.Slice(ids, func(i, j int) bool { return ids[i] < ids[j] })
		uniq := ids[:0]
		for i, v := range ids {
			if i == 0 || v != ids[i-1] {
				uniq = append(uniq, v)
			}
		}
		ids = uniq
		var qs, qs2 []*w2query
		for s := 0; s < c.perClient[ci] && s < len(ids); s++ {
			wq := c.genQuery(ci, s, ids[s])
			qs = append(qs, wq)
			c.queries = append(c.queries, wq)
		}
		// second round: the same questions again later (cache hits, stale/lazy hits), fresh IDs
		if c.gap > 0 {
			used := map[uint16]bool{}
			for _, id := range ids {
				used[id] = true
			}
			for _, wq := range qs {
				if wq.Malformed != "" {
					continue
				}
				nid := wq.Msg.Id + 7
				for used[nid] {
					nid++
				}
				used[nid] = true
				m := wq.Msg.Copy()
				m.Id = nid
				w2 := &w2query{Client: ci, Seq: wq.Seq + 100, Msg: m, Wire: packOrPanic(m), HasOpt: wq.HasOpt, OptSize: wq.OptSize, DO: wq.DO, Opts: wq.Opts}
				qs2 = append(qs2, w2)
				c.queries = append(c.queries, w2)
			}
		}
		addr := netip.MustParseAddr(fmt.Sprintf("10.7.0.%d", ci+1))
		simrt.GoNamed(fmt.Sprintf("client%d", ci), func() {
			defer simrt.Send(0, done, struct{}{})
			rounds := [][]*w2query{qs}
			if len(qs2) > 0 {
				rounds = append(rounds, qs2)
			}
			for ri, qs := range rounds {
			if ri == 1 {
				simrt.Sleep(0, c.gap)
				simrt.Probe("w2.second_round")
			}
			switch c.transports[ci] {
			case 1:
				c.clientTCP(rc, ci, qs)
			case 4:
				c.clientUDP(rc, ci, qs)
			default:
				qd := make(chan struct{}, len(qs))
				for _, wq := range qs {
					wq := wq
					simrt.GoNamed(fmt.Sprintf("q%d.%d", ci, wq.Seq), func() {
						defer simrt.Send(0, qd, struct{}{})
						if simrt.Choose(3) == 0 {
							simrt.Sleep(0, time.Duration(simrt.Choose(3000))*time.Millisecond)
						}
						wq.SentAt = simrt.S.Elapsed()
						switch c.transports[ci] {
						case 0:
							m := new(dns.Msg)
							if err := m.Unpack(wq.Wire); err != nil {
								wq.NoReply, wq.Done = true, true
								return
							}
							p := eh.Handle(context.Background(), m, server.QueryMeta{FromUDP: true, ClientAddr: addr}, pool.PackBuffer)
							wq.ReplyAt = simrt.S.Elapsed()
							if p == nil {
								wq.NoReply = true
							} else {
								wq.Replies = append(wq.Replies, append([]byte(nil), (*p)...))
							}
						default:
							var req *http.Request
							if c.transports[ci] == 2 {
								req, _ = http.NewRequest("GET", "/dns-query?dns="+base64.RawURLEncoding.EncodeToString(wq.Wire), nil)
								req.Header.Set("Accept", "application/dns-message")
							} else {
								req, _ = http.NewRequest("POST", "/dns-query", bytes.NewReader(wq.Wire))
								req.Header.Set("Content-Type", "application/dns-message")
							}
							req.RemoteAddr = addr.String() + ":5353"
							rec := httptest.NewRecorder()
							hh.ServeHTTP(rec, req)
							wq.ReplyAt = simrt.S.Elapsed()
							if rec.Code != 200 {
								wq.NoReply = true
							} else {
								wq.Replies = append(wq.Replies, append([]byte(nil), rec.Body.Bytes()...))
							}
						}
						wq.Done = true
					})
				}
				for range qs {
					simrt.Recv(0, qd)
				}
			}
			}
		})
	}
	if c.gap >= 40*time.Second && simrt.Choose(2) == 0 {
		// between the two rounds the cache goes through a restart: dump, flush,
		// load the dump (as a dump_file restart does with a new instance)
		simrt.GoNamed("cache-restart", func() {
			simrt.Sleep(0, 20*time.Second)
			for _, cp := range c.caches {
				b, code := apiDump(cp)
				if code != 200 {
					rc.Fail("dump_failed", "GET /dump returned %d", code)
					return
				}
				apiFlush(cp)
				if code := apiLoad(cp, b); code != 200 {
					rc.Fail("load_failed", "POST /load_dump of the dump just taken returned %d", code)
					return
				}
			}
			simrt.Fault("cache_restart_via_dump")
		}).Daemon = true
	}
	for i := 0; i < c.nClients; i++ {
		simrt.Recv(0, done)
	}
	// lazy refreshes and stragglers
	simrt.Sleep(0, 6*time.Second)
	l.Close()
	simrt.Recv(0, srvDone)
	pl.Close()
	simrt.Recv(0, udpDone)
	c.checkAll(rc)
	for _, f := range c.closers {
		f()
	}
}

func (c *w2cfg) clientTCP(rc *RunCtx, ci int, qs []*w2query) {
	// the client address seen by the server is the connection's remote address
	nc, err := rc.Net.Dial(context.Background(), "tcp", "10.0.0.53:53")
	if err != nil {
		panic(err)
	}
	cc := nc.(*simnet.Conn)
	cc.SetClientIP(fmt.Sprintf("10.7.0.%d", ci+1))
	byID := map[uint16]*w2query{}
	for _, wq := range qs {
		byID[wq.Msg.Id] = wq
		fb := make([]byte, 2+len(wq.Wire))
		binary.BigEndian.PutUint16(fb, uint16(len(wq.Wire)))
		copy(fb[2:], wq.Wire)
		wq.SentAt = simrt.S.Elapsed()
		cc.WriteRaw(fb)
		if simrt.Choose(3) == 0 {
			simrt.Sleep(0, time.Duration(simrt.Choose(50))*time.Millisecond)
		}
	}
	cc.SetReadDeadline(time.Now().Add(7 * time.Second))
	for {
		frame, err := indepRead(cc)
		if err != nil {
			break
		}
		if len(frame) < 2 {
			continue
		}
		id := binary.BigEndian.Uint16(frame)
		if wq := byID[id]; wq != nil {
			wq.Replies = append(wq.Replies, frame)
			if len(wq.Replies) == 1 {
				wq.ReplyAt = simrt.S.Elapsed()
			}
		} else {
			rc.Fail("reply_for_unknown_query", "client %d received a frame with ID %d that it never used", ci, id)
		}
	}
	for _, wq := range qs {
		wq.Done = true
		if len(wq.Replies) == 0 {
			wq.NoReply = true
		}
	}
	cc.Close()
}

// clientUDP: one client socket, all queries of the round as datagrams to the
// real ServeUDP loop (back to back or spaced by PRNG pauses), replies matched
// by ID until nothing has arrived for 7 s.
func (c *w2cfg) clientUDP(rc *RunCtx, ci int, qs []*w2query) {
	nc, err := rc.Net.Dial(context.Background(), "udp", "10.0.0.53:53")
	if err != nil {
		panic(err)
	}
	cc := nc.(*simnet.Conn)
	cc.SetClientIP(fmt.Sprintf("10.7.0.%d", ci+1))
	byID := map[uint16]*w2query{}
	for _, wq := range qs {
		byID[wq.Msg.Id] = wq
		wq.SentAt = simrt.S.Elapsed()
		cc.WriteMsg(wq.Wire, nil)
		if simrt.Choose(3) == 0 {
			simrt.Sleep(0, time.Duration(simrt.Choose(50))*time.Millisecond)
		}
	}
	for {
		cc.SetReadDeadline(time.Now().Add(7 * time.Second))
		b, err := cc.ReadMsg()
		if err != nil {
			break
		}
		if len(b) < 2 {
			continue
		}
		id := binary.BigEndian.Uint16(b)
		if wq := byID[id]; wq != nil {
			wq.Replies = append(wq.Replies, b)
			if len(wq.Replies) == 1 {
				wq.ReplyAt = simrt.S.Elapsed()
			}
		} else {
			rc.Fail("reply_for_unknown_query", "client %d received a datagram with ID %d that it never used", ci, id)
		}
	}
	for _, wq := range qs {
		wq.Done = true
		if len(wq.Replies) == 0 {
			wq.NoReply = true
		}
	}
	cc.Close()
}

// ---- oracles ----

func rrStrings(rrs []dns.RR) []string {
	var s []string
	for _, rr := range rrs {
		if rr.Header().Rrtype == dns.TypeOPT {
			continue
		}
		s = append(s, rr.String())
	}
	return s
}

func (c *w2cfg) checkAll(rc *RunCtx) {
	for _, wq := range c.queries {
		if rc.Viol != nil {
			return
		}
		if c.mode == "C03" {
			c.checkC03(rc, wq)
		} else {
			c.checkC15client(rc, wq)
		}
	}
	if c.mode == "C15" && rc.Viol == nil {
		c.checkC15upstream(rc)
		c.checkC15cache(rc)
	}
}

func (c *w2cfg) desc(wq *w2query) string {
	q := wq.Msg
	qs := "?"
	if len(q.Question) > 0 {
		qs = fmt.Sprintf("%q type %d class %d", q.Question[0].Name, q.Question[0].Qtype, q.Question[0].Qclass)
	}
	return fmt.Sprintf("client %d (%s) query ID %d %s opt=%v size=%d; rules: %s", wq.Client, []string{"udp-handler", "tcp", "doh-get", "doh-post", "udp"}[c.transports[wq.Client]], q.Id, qs, wq.HasOpt, wq.OptSize, c.rulesText())
}

func (c *w2cfg) rulesText() string {
	var txt []string
	for _, ra := range c.rules {
		txt = append(txt, fmt.Sprintf("{%s -> %s}", strings.Join(ra.Matches, " & "), ra.Exec))
	}
	return strings.Join(txt, " ")
}

func (c *w2cfg) checkC03(rc *RunCtx, wq *w2query) {
	tr := c.transports[wq.Client]
	if wq.Malformed != "" {
		if len(wq.Replies) > 0 {
			rc.Fail("malformed_query_answered", "malformed query (%s) got a DNS reply: %s", wq.Malformed, c.desc(wq))
		} else {
			simrt.Probe("c03.malformed_dropped")
		}
		return
	}
	if tr == 1 {
		// a malformed query on the same TCP connection aborts the connection: later replies may be lost
		for _, o := range c.queries {
			if o.Client == wq.Client && o.Malformed != "" {
				return
			}
		}
	}
	if len(wq.Replies) == 0 {
		rc.Fail("no_reply", "well-formed query got no reply: %s", c.desc(wq))
		return
	}
	if len(wq.Replies) > 1 {
		rc.Fail("more_than_one_reply", "query got %d replies: %s", len(wq.Replies), c.desc(wq))
		return
	}
	if wq.ReplyAt-wq.SentAt > 5*time.Second+100*time.Millisecond {
		rc.Fail("reply_too_late", "reply after %v: %s", wq.ReplyAt-wq.SentAt, c.desc(wq))
		return
	}
	raw := wq.Replies[0]
	r := new(dns.Msg)
	if err := r.Unpack(raw); err != nil {
		rc.Fail("reply_unparsable", "%v: %s", err, c.desc(wq))
		return
	}
	q := wq.Msg
	if r.Id != q.Id {
		rc.Fail("reply_wrong_id", "reply ID %d: %s", r.Id, c.desc(wq))
		return
	}
	if len(r.Question) != 1 || r.Question[0] != q.Question[0] {
		rc.Fail("reply_wrong_question", "reply question %v: %s", r.Question, c.desc(wq))
		return
	}
	if !r.Response || !r.RecursionAvailable {
		rc.Fail("reply_flags", "QR=%v RA=%v: %s", r.Response, r.RecursionAvailable, c.desc(wq))
		return
	}
	rec := c.chain[w2key(netip.MustParseAddr(fmt.Sprintf("10.7.0.%d", wq.Client+1)), q.Id)]
	if rec == nil {
		rc.Fail("reply_without_chain_run", "a reply arrived although the plugin chain never ran for it: %s", c.desc(wq))
		return
	}
	simrt.Probe("c03.reply_checked")
	switch {
	case rec.Err != nil:
		if r.Rcode != dns.RcodeServerFailure {
			rc.Fail("error_not_servfail", "the chain returned error %q but the reply has rcode %d: %s", rec.Err, r.Rcode, c.desc(wq))
		}
		simrt.Probe("c03.servfail")
		return
	case rec.Resp == nil:
		if r.Rcode != dns.RcodeRefused {
			rc.Fail("no_answer_not_refused", "the chain left no response but the reply has rcode %d: %s", r.Rcode, c.desc(wq))
		}
		simrt.Probe("c03.refused")
		return
	}
	want := rec.Resp
	if want.Rcode > 0xF && !wq.HasOpt {
		// A 12-bit rcode cannot be sent to a client that did not use EDNS0 (its
		// upper bits live in the OPT record). The reply must still exist and must
		// not look like a positive or name-error answer.
		simrt.Probe("c03.extended_rcode_for_non_edns_client")
		if r.Rcode == dns.RcodeSuccess || r.Rcode == dns.RcodeNameError {
			rc.Fail("rcode_differs", "chain response has extended rcode %d, the non-EDNS client got rcode %d: %s", want.Rcode, r.Rcode, c.desc(wq))
		}
		return
	}
	if r.Rcode != want.Rcode {
		rc.Fail("rcode_differs", "chain response rcode %d, reply rcode %d: %s", want.Rcode, r.Rcode, c.desc(wq))
		return
	}
	wa, wn, we := rrStrings(want.Answer), rrStrings(want.Ns), rrStrings(want.Extra)
	ga, gn, ge := rrStrings(r.Answer), rrStrings(r.Ns), rrStrings(r.Extra)
	if tr == 0 || tr == 4 {
		limit := 512
		if wq.HasOpt && int(wq.OptSize) > limit {
			limit = int(wq.OptSize)
		}
		if len(raw) > limit {
			rc.Fail("udp_reply_too_large", "%d bytes, limit max(512, advertised)=%d: %s", len(raw), limit, c.desc(wq))
			return
		}
		dropped := len(ga) < len(wa) || len(gn) < len(wn) || len(ge) < len(we)
		if dropped {
			simrt.Probe("c03.udp_truncated")
			if !r.Truncated {
				rc.Fail("records_dropped_without_tc", "records were dropped to fit %d bytes but TC is clear: %s", limit, c.desc(wq))
				return
			}
		}
		// what is left must be a prefix of the chain's sections
		if !isPrefix(ga, wa) || !isPrefix(gn, wn) || !isPrefix(ge, we) {
			rc.Fail("records_differ", "reply records are not a prefix of the chain's response: %s", c.desc(wq))
		}
		return
	}
	if strings.Join(ga, "|") != strings.Join(wa, "|") || strings.Join(gn, "|") != strings.Join(wn, "|") || strings.Join(ge, "|") != strings.Join(we, "|") {
		rc.Fail("records_differ", "reply records differ from the chain's response: got %v want %v: %s", ga, wa, c.desc(wq))
	}
}

func isPrefix(got, want []string) bool {
	if len(got) > len(want) {
		return false
	}
	for i := range got {
		if got[i] != want[i] {
			return false
		}
	}
	return true
}

func (c *w2cfg) checkC15client(rc *RunCtx, wq *w2query) {
	if wq.Malformed != "" || len(wq.Replies) != 1 {
		return
	}
	r := new(dns.Msg)
	if err := r.Unpack(wq.Replies[0]); err != nil {
		return
	}
	var opts []*dns.OPT
	for _, rr := range append(append(append([]dns.RR{}, r.Answer...), r.Ns...), r.Extra...) {
		if o, ok := rr.(*dns.OPT); ok {
			opts = append(opts, o)
		}
	}
	simrt.Probe("c15.client_reply_checked")
	if !wq.HasOpt {
		if len(opts) != 0 {
			rc.Fail("opt_sent_to_non_edns_client", "the query had no OPT but the reply carries %d: %s", len(opts), c.desc(wq))
		}
		return
	}
	if len(opts) != 1 {
		rc.Fail("opt_count_in_reply", "the query had an OPT, the reply carries %d OPT records: %s", len(opts), c.desc(wq))
		return
	}
	o := opts[0]
	if o.Do() != wq.DO {
		rc.Fail("do_bit_not_mirrored", "query DO=%v, reply DO=%v: %s", wq.DO, o.Do(), c.desc(wq))
		return
	}
	if o.Version() != 0 || o.Hdr.Ttl&0x7fff != 0 {
		rc.Fail("opt_ttl_field_altered", "reply OPT ttl field %#x (version %d): %s", o.Hdr.Ttl, o.Version(), c.desc(wq))
		return
	}
	rec := c.chain[w2key(netip.MustParseAddr(fmt.Sprintf("10.7.0.%d", wq.Client+1)), wq.Msg.Id)]
	clientSent := map[uint16]bool{}
	for _, cd := range wq.Opts {
		clientSent[cd] = true
	}
	for _, op := range o.Option {
		code := op.Option()
		// An option may reach the client only from the upstream reply that the
		// response this chain run left came from, received during this run (the
		// reply is identified by the nonce in its records, not by asking the
		// query context) ...
		var own *w2upReply
		if rec != nil {
			if u := c.upReplies[w2nonceOf(rec.Resp)]; u != nil && u.At >= rec.StartAt && u.At <= rec.EndAt {
				own = u
			}
		}
		if own == nil || !own.Codes[code] {
			rc.Fail("foreign_option_in_reply", "reply OPT carries option %d, but the response returned to this query did not come from an upstream reply of its own exchange carrying that option (cache hit, locally made or replaced response, other exchange): %s", code, c.desc(wq))
			return
		}
		// ... and only if a configured plugin forwards it explicitly:
		// forward_edns0opt for its listed codes, ecs_handler(forward) only when it
		// forwarded the client's own ECS.
		if c.fwdCodes[code] {
			continue
		}
		if code == dns.EDNS0SUBNET && c.ecsForward && clientSent[dns.EDNS0SUBNET] {
			continue
		}
		rc.Fail("upstream_option_leaked_to_client", "reply OPT carries option %d which no configured plugin forwards for this query (client sent options %v): %s", code, wq.Opts, c.desc(wq))
		return
	}
}

func (c *w2cfg) checkC15upstream(rc *RunCtx) {
	for _, u := range c.upqs {
		simrt.Probe("c15.upstream_query_checked")
		if u.NOpt != 1 {
			rc.Fail("opt_count_in_upstream_query", "upstream %s (%s) received a query for %q with %d OPT records; rules: %s", u.Up, u.Net, u.Q.Name, u.NOpt, c.rulesText())
			return
		}
		if u.DO {
			// not an option and not ruled out by the statement: counted only
			simrt.Probe("c15.upstream_query_with_do")
		}
		for _, code := range u.Codes {
			if c.fwdCodes[code] || (code == dns.EDNS0SUBNET && c.ecsAny) {
				continue
			}
			rc.Fail("client_option_leaked_upstream", "upstream %s received option %d in the query for %q although no configured plugin forwards it; rules: %s", u.Up, code, u.Q.Name, c.rulesText())
			return
		}
	}
}

func (c *w2cfg) checkC15cache(rc *RunCtx) {
	for _, cp := range c.caches {
		b, code := apiDump(cp)
		if code != 200 {
			continue
		}
		ents, err := decodeDump(b)
		if err != nil {
			continue
		}
		for k, e := range ents {
			m := new(dns.Msg)
			if m.Unpack(e.Msg) != nil {
				continue
			}
			simrt.Probe("c15.cached_entry_checked")
			for _, rr := range m.Extra {
				if rr.Header().Rrtype == dns.TypeOPT {
					rc.Fail("opt_in_cached_answer", "cache entry %q contains an OPT record; rules: %s", k, c.rulesText())
					return
				}
			}
		}
	}
}

func w2Post(rc *RunCtx, res simrt.Result) {
	if res.End != simrt.EndClean && rc.Viol == nil {
		rc.Inconcl = "run did not end cleanly: " + res.End.String()
	}
}
