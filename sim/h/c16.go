package h

import (
	"bytes"
	"context"
	"encoding/binary"
	"fmt"
	"io"
	"time"

	"github.com/IrineSistiana/mosdns/v5/pkg/dnsutils"
	"github.com/IrineSistiana/mosdns/v5/pkg/pool"
	"github.com/IrineSistiana/mosdns/v5/pkg/server"
	"github.com/miekg/dns"
	"verif/sim/simnet"
	"verif/sim/simrt"
)

// C16 — stream framing is exact in both directions.
//
// Sub-scenarios per run:
//   rw     : WriteRawMsgToTCP / PackTCPBuffer / WriteMsgToTCP on one end,
//            ReadRawMsgFromTCP on the other, with an independent framer on the
//            opposite side, under PRNG chunking (whole, split, 1-byte reads);
//            lengths biased to 13, 14, 512, 4096, 65535 and out of range.
//   damage : streams cut inside the header/body, lengths below a DNS header,
//            arbitrary byte streams: error, never a panic or a wrong-sized buffer.
//   server : the real server.ServeTCP on a simnet listener; clients pipeline
//            2..8 queries per connection, handler tasks finish in PRNG order and
//            write concurrently; the client re-frames the stream.

func init() {
	Scenarios["C16"] = &Scenario{Setup: c16Setup, Main: c16Main, Post: c16Post}
}

type c16cfg struct {
	mode int
}

func c16Setup(rc *RunCtx) simrt.Config {
	r := rc.R
	cfg, sname := drawSimConfig(r, 3000000)
	cfg.TraceLimit = 2000
	c := &c16cfg{mode: r.Weighted(3, 2, 4, 3)}
	rc.Net.ChunkMode = r.Choose(3)
	rc.Cfg["strategy"] = sname
	rc.Cfg["kind"] = "framing"
	rc.Cfg["mode"] = []string{"rw", "damage", "server", "client"}[c.mode]
	rc.Cfg["chunk"] = rc.Net.ChunkMode
	rc.priv = c
	return cfg
}

var c16lens = []int{13, 14, 15, 100, 511, 512, 513, 4095, 4096, 4097, 65534, 65535}

func c16Len() int {
	if simrt.Choose(4) == 0 {
		return 13 + simrt.Choose(65535-13+1)
	}
	return c16lens[simrt.Choose(len(c16lens))]
}

func c16Payload(n int, salt byte) []byte {
	b := make([]byte, n)
	for i := range b {
		b[i] = byte(i*7) ^ salt
	}
	return b
}

// indepRead is the independent framer: exactly two header bytes, then exactly that many.
func indepRead(c io.Reader) ([]byte, error) {
	var h [2]byte
	if _, err := io.ReadFull(c, h[:]); err != nil {
		return nil, err
	}
	b := make([]byte, int(h[0])<<8|int(h[1]))
	_, err := io.ReadFull(c, b)
	return b, err
}

func c16Pipe(rc *RunCtx) (cl, sv *simnet.Conn) {
	ch := make(chan *simnet.Conn, 1)
	rc.Net.Handle("tcp", "192.0.2.9:53", func(sc *simnet.Conn) { ch <- sc })
	c, err := rc.Net.Dial(context.Background(), "tcp", "192.0.2.9:53")
	if err != nil {
		panic(err)
	}
	return c.(*simnet.Conn), simrt.Recv(0, ch)
}

func c16Main(rc *RunCtx) {
	c := rc.priv.(*c16cfg)
	defer func() {
		if r := recover(); r != nil {
			rc.Fail("panic", "panic in framing code: %v", r)
		}
	}()
	switch c.mode {
	case 0:
		c16RW(rc)
	case 1:
		c16Damage(rc)
	case 3:
		c16Client(rc)
	default:
		c16Server(rc)
	}
}

// c16Client: the upstream side. Several callers on stream transports while the
// server kills connections (so queries are re-sent on other connections); the
// sim server's independent framer requires every frame it receives to be exactly
// one known query. Released buffers are poisoned, so a frame sent from a buffer
// that was already given back to the pool arrives as garbage.
func c16Client(rc *RunCtx) {
	w := newW1(rc)
	w.CheckFrames = true
	rc.StrictBufs = true
	kind := []TransportKind{TkTCP, TkReuse, TkTCPPipeline, TkPipelineStream}[simrt.Choose(4)]
	rc.Cfg["kind"] = "framing/client " + kind.String()
	pKill := []int{0, 30, 60}[simrt.Choose(3)]
	idle := []time.Duration{0, 2 * time.Second}[simrt.Choose(2)]
	pDup := []int{0, 20, 50}[simrt.Choose(3)]
	pStall := 0
	if kind.pipelined() && idle > 0 {
		pStall = []int{0, 10, 30}[simrt.Choose(3)]
	}
	plan := func(sc *simnet.Conn, nth int, call *Call, wid uint16) Action {
		a := Action{}
		if simrt.Choose(100) < pStall {
			// the server stalls inside a frame for longer than the client's idle timeout
			a.StallForge = idle + time.Duration(200+simrt.Choose(2000))*time.Millisecond
			return a
		}
		x := simrt.Choose(100)
		if x < pKill/2 {
			a.CloseAfter = true
		} else if x < pKill {
			a.SilentKillAfter = true
		}
		if simrt.Choose(4) == 0 {
			a.Delay = time.Duration(1+simrt.Choose(5)) * time.Millisecond
		}
		if kind.pipelined() && simrt.Choose(100) < pDup {
			a.Dup = 1 + simrt.Choose(3) // duplicate frames back to back
		}
		return a
	}
	rc.Net.Handle("tcp", srvAddr, w.Serve(ServerOpts{Plan: plan}))
	u := w.NewTransport(kind, TransportOpts{IdleTimeout: idle})
	callers := 1 + simrt.Choose(4)
	done := make(chan struct{}, callers)
	huge := simrt.Choose(4) == 0
	if huge {
		w.MaxQueryFrame = 65535
	}
	for ci := 0; ci < callers; ci++ {
		ci := ci
		n := 1 + simrt.Choose(6)
		simrt.GoNamed(fmt.Sprintf("caller%d", ci), func() {
			for s := 0; s < n && rc.Viol == nil; s++ {
				call := w.NewCall(ci, s, uint16(simrt.Choose(65536)), 1)
				if huge && simrt.Choose(3) == 0 {
					// queries at and beyond the 65535-byte limit of a length-prefixed
					// frame (the question followed by padding): the largest must be
					// framed intact, longer ones refused without writing anything
					size := []int{65534, 65535, 65536, 65537, 70000}[simrt.Choose(5)]
					call.Query = append(call.Query, make([]byte, size-len(call.Query))...)
					simrt.Fault("query_at_frame_size_limit")
					w.Exchange(u, call)
					if size > 65535 {
						if call.Err == nil || len(call.Txs) > 0 {
							rc.Fail("oversize_message_not_refused", "a %d-byte query (limit 65535) returned err=%v and was seen %d times by the server", size, call.Err, len(call.Txs))
						}
						continue
					}
				} else {
					w.Exchange(u, call)
				}
				w.CheckProvenance(call)
				if simrt.Choose(3) == 0 {
					simrt.Sleep(0, time.Duration(simrt.Choose(20))*time.Millisecond)
				}
			}
			simrt.Send(0, done, struct{}{})
		})
	}
	for i := 0; i < callers; i++ {
		simrt.Recv(0, done)
	}
	u.Close()
}

// finReader hands out a byte stream in PRNG-sized pieces; the piece that holds
// the last bytes comes together with io.EOF, as a QUIC stream does when the
// FIN rides on the last data (the io.Reader contract allows n > 0 with an error).
type finReader struct {
	b   []byte
	off int
}

func (f *finReader) Read(p []byte) (int, error) {
	rest := len(f.b) - f.off
	if rest == 0 {
		return 0, io.EOF
	}
	n := 1 + simrt.Choose(rest)
	if simrt.Choose(3) == 0 {
		n = rest
	}
	if n > len(p) {
		n = len(p)
	}
	copy(p, f.b[f.off:f.off+n])
	f.off += n
	if f.off == len(f.b) {
		simrt.Fault("fin_with_last_data")
		return n, io.EOF
	}
	return n, nil
}

// c16Fin: 1-4 good frames on a stream whose end of stream arrives together
// with the last bytes: every frame must be returned unchanged.
func c16Fin(rc *RunCtx) {
	var stream []byte
	var good [][]byte
	for i := 0; i < 1+simrt.Choose(4); i++ {
		p := c16Payload(c16lens[simrt.Choose(8)], byte(i))
		good = append(good, p)
		stream = append(stream, byte(len(p)>>8), byte(len(p)))
		stream = append(stream, p...)
	}
	fr := &finReader{b: stream}
	for i, want := range good {
		bp, err := dnsutils.ReadRawMsgFromTCP(fr)
		if err != nil {
			rc.Fail("messages_lost", "frame %d of %d (%d bytes) on a stream whose FIN rides on its last bytes was not returned: %v", i, len(good), len(want), err)
			return
		}
		if !bytes.Equal(*bp, want) {
			rc.Fail("message_altered_in_transit", "frame %d altered", i)
			return
		}
		pool.ReleaseBuf(bp)
	}
	simrt.Probe("c16.fin_with_data_ok")
}

func c16RW(rc *RunCtx) {
	if simrt.Choose(5) == 0 {
		c16Fin(rc)
		return
	}
	a, b := c16Pipe(rc)
	n := 1 + simrt.Choose(6)
	type sent struct {
		data []byte
		ok   bool
	}
	var msgs []sent
	done := make(chan struct{}, 1)
	// writer task: the functions under test on end a
	simrt.GoNamed("writer", func() {
		defer simrt.Send(0, done, struct{}{})
		for i := 0; i < n; i++ {
			l := c16Len()
			switch simrt.Choose(8) {
			case 0:
				l = 65536 + simrt.Choose(3) // must be refused
			}
			p := c16Payload(l, byte(i))
			var err error
			how := simrt.Choose(3)
			if simrt.Choose(6) == 0 {
				// PackTCPBuffer on a real message around the 65535-byte limit (TXT data
				// does not compress): what it returns is either an error or exactly
				// one frame whose header equals the number of bytes that follow
				target := []int{60000, 65000, 65500, 65600, 66000, 70000, 80000}[simrt.Choose(7)]
				m := new(dns.Msg)
				m.SetQuestion("big.test.", dns.TypeTXT)
				for k := 0; m.Len() < target-300; k++ {
					m.Answer = append(m.Answer, &dns.TXT{Hdr: dns.RR_Header{Name: "big.test.", Rrtype: dns.TypeTXT, Class: 1, Ttl: uint32(k)},
						Txt: []string{fmt.Sprintf("%04d", k) + string(bytes.Repeat([]byte{byte('a' + k%26)}, 240))}})
				}
				plain, perr := m.Pack()
				buf, err := pool.PackTCPBuffer(m)
				simrt.Fault("pack_around_frame_size_limit")
				if err != nil {
					if perr == nil && len(plain) <= 65535 {
						rc.Fail("write_failed", "PackTCPBuffer refused a message that packs to %d bytes: %v", len(plain), err)
						return
					}
					simrt.Probe("c16.oversize_refused")
					continue
				}
				if got := int((*buf)[0])<<8 | int((*buf)[1]); got != len(*buf)-2 {
					rc.Fail("oversize_message_framed", "PackTCPBuffer returned a frame whose length header says %d but %d bytes follow (the message packs to %d bytes uncompressed)", got, len(*buf)-2, len(plain))
					return
				}
				p = append([]byte(nil), (*buf)[2:]...)
				_, err = a.Write(*buf)
				pool.ReleaseBuf(buf)
				if err != nil {
					rc.Fail("write_failed", "writing a %d-byte frame failed: %v", len(p), err)
					return
				}
				msgs = append(msgs, sent{data: p, ok: true})
				continue
			}
			if how == 2 && l <= 4000 {
				// PackTCPBuffer on a real message of roughly that size
				m := new(dns.Msg)
				m.SetQuestion("x.test.", dns.TypeTXT)
				m.Answer = append(m.Answer, &dns.TXT{Hdr: dns.RR_Header{Name: "x.test.", Rrtype: dns.TypeTXT, Class: 1}, Txt: []string{string(bytes.Repeat([]byte{'a'}, l%250))}})
				var buf *[]byte
				buf, err = pool.PackTCPBuffer(m)
				if err == nil {
					want, _ := m.Pack()
					p = want
					_, err = a.Write(*buf)
					pool.ReleaseBuf(buf)
				}
			} else {
				_, err = dnsutils.WriteRawMsgToTCP(a, p)
			}
			if l > 65535 {
				if err == nil {
					rc.Fail("oversize_message_framed", "a %d-byte message was written instead of being refused", l)
					return
				}
				simrt.Probe("c16.oversize_refused")
				continue
			}
			if err != nil {
				rc.Fail("write_failed", "writing a %d-byte message failed: %v", l, err)
				return
			}
			msgs = append(msgs, sent{data: p, ok: true})
		}
		a.Close()
	})
	// reader: alternately the function under test and the independent framer
	useIndep := simrt.Choose(2) == 0
	i := 0
	for {
		var got []byte
		var err error
		if useIndep {
			got, err = indepRead(b)
		} else {
			var bp *[]byte
			bp, err = dnsutils.ReadRawMsgFromTCP(b)
			if err == nil {
				got = append([]byte(nil), (*bp)...)
				if len(*bp) != cap(*bp) && false {
					_ = bp
				}
				pool.ReleaseBuf(bp)
			}
		}
		if err != nil {
			break
		}
		// the writer runs concurrently: wait until it has recorded message i
		for i >= len(msgs) {
			simrt.Yield(0)
			if rc.Viol != nil {
				return
			}
		}
		if !bytes.Equal(got, msgs[i].data) {
			rc.Fail("message_altered_in_transit", "message %d: wrote %d bytes, read %d bytes (first difference at %d)", i, len(msgs[i].data), len(got), firstDiff(got, msgs[i].data))
			return
		}
		simrt.Probe("c16.roundtrip_ok")
		i++
	}
	simrt.Recv(0, done)
	if rc.Viol == nil && i != len(msgs) {
		rc.Fail("messages_lost", "wrote %d messages, read %d", len(msgs), i)
	}
	b.Close()
}

func firstDiff(a, b []byte) int {
	for i := 0; i < len(a) && i < len(b); i++ {
		if a[i] != b[i] {
			return i
		}
	}
	return -1
}

func c16Damage(rc *RunCtx) {
	rc.StrictBufs = true
	a, b := c16Pipe(rc)
	// build a byte stream: some good frames, then damage
	var stream []byte
	var good [][]byte
	ng := simrt.Choose(3)
	for i := 0; i < ng; i++ {
		p := c16Payload(c16lens[simrt.Choose(6)], byte(i))
		good = append(good, p)
		h := []byte{byte(len(p) >> 8), byte(len(p))}
		stream = append(stream, h...)
		stream = append(stream, p...)
	}
	kind := simrt.Choose(4)
	switch kind {
	case 0: // length below/at a DNS header
		l := simrt.Choose(13)
		stream = append(stream, byte(l>>8), byte(l))
		stream = append(stream, c16Payload(l, 9)...)
		simrt.Fault("frame_shorter_than_header")
	case 1: // cut inside the header
		stream = append(stream, 0x01)
		simrt.Fault("stream_cut_in_header")
	case 2: // cut inside the body
		l := 13 + simrt.Choose(600)
		stream = append(stream, byte(l>>8), byte(l))
		stream = append(stream, c16Payload(simrt.Choose(l), 3)...)
		simrt.Fault("stream_cut_in_body")
	default: // arbitrary garbage
		g := make([]byte, simrt.Choose(300))
		for i := range g {
			g[i] = byte(simrt.Choose(256))
		}
		stream = append(stream, g...)
		simrt.Fault("garbage_stream")
	}
	simrt.GoNamed("feeder", func() {
		// feed in PRNG-sized pieces
		for len(stream) > 0 {
			n := 1 + simrt.Choose(len(stream))
			a.WriteRaw(stream[:n])
			stream = stream[n:]
		}
		a.Close()
	})
	i := 0
	for {
		bp, err := dnsutils.ReadRawMsgFromTCP(b)
		if err != nil {
			// "... yields an error, never ... a buffer": what comes with an error is
			// either nothing or a buffer the caller owns (the documented idiom
			// releases a non-nil result), never one that already went back to the pool
			if bp != nil {
				if rc.Released(bp) {
					rc.Fail("released_buffer_returned_with_error", "ReadRawMsgFromTCP returned error %q together with a %d-byte buffer that it had already released to the pool", err, len(*bp))
					return
				}
				pool.ReleaseBuf(bp)
			}
			simrt.Probe("c16.damage_reported_as_error")
			break
		}
		got := *bp
		if len(got) <= 12 {
			rc.Fail("short_frame_accepted", "ReadRawMsgFromTCP returned a %d-byte message", len(got))
			return
		}
		if i < len(good) {
			if !bytes.Equal(got, good[i]) {
				rc.Fail("message_altered_in_transit", "good frame %d altered", i)
				return
			}
		} else if kind != 3 {
			rc.Fail("damaged_frame_accepted", "a message (%d bytes) was returned from the damaged part of the stream (kind %d)", len(got), kind)
			return
		}
		pool.ReleaseBuf(bp)
		i++
	}
	if rc.Viol == nil && i < len(good) {
		rc.Fail("messages_lost", "%d good frames precede the damage, only %d were returned", len(good), i)
	}
	b.Close()
}

// c16yield is the rdata of a private RR type whose Pack yields to the
// scheduler: packing a message takes time, and other handler tasks of the same
// connection run (and pack their own replies) meanwhile.
type c16yield struct{ b []byte }

func (y *c16yield) String() string { return fmt.Sprintf("yield(%d)", len(y.b)) }
func (y *c16yield) Parse(txt []string) error { return nil }
func (y *c16yield) Pack(buf []byte) (int, error) {
	if simrt.S != nil {
		simrt.Yield(0)
	}
	if len(buf) < len(y.b) {
		return 0, fmt.Errorf("buffer too small")
	}
	return copy(buf, y.b), nil
}
func (y *c16yield) Unpack(buf []byte) (int, error) {
	y.b = append([]byte(nil), buf...)
	return len(buf), nil
}
func (y *c16yield) Copy(dest dns.PrivateRdata) error {
	dest.(*c16yield).b = append([]byte(nil), y.b...)
	return nil
}
func (y *c16yield) Len() int { return len(y.b) }

const c16yieldType = 65281

func init() {
	dns.PrivateHandle("SIMYIELD", c16yieldType, func() dns.PrivateRdata { return new(c16yield) })
}

type c16handler struct {
	rc   *RunCtx
	sent map[string]bool // question names of the queries the clients really framed
}

// Handle answers with a payload whose size and content are derived from the
// query (question name encodes size and salt), after a PRNG delay.
func (h *c16handler) Handle(ctx context.Context, q *dns.Msg, meta server.QueryMeta, pack func(m *dns.Msg) (*[]byte, error)) *[]byte {
	var size, salt, wait int
	if len(q.Question) == 0 && q.Id == 0x0100 {
		// the frame that follows the runt frame, read at its proper place by a
		// server that skipped the runt's announced body and went on: legitimate
		simrt.Probe("c16.frame_after_runt_read_aligned")
		return nil
	}
	if len(q.Question) != 1 || !h.sent[q.Question[0].Name] {
		h.rc.Fail("server_handled_a_frame_never_sent", "the handler received query %v (ID %#04x), which no client ever sent as a frame: the server lost its place in the stream", q.Question, q.Id)
		return nil
	}
	fmt.Sscanf(q.Question[0].Name, "s%d.k%d.w%d.", &size, &salt, &wait)
	if wait > 0 {
		// keep-alive queries: answered much later, so that nothing touches the
		// connection's write side in the meantime
		simrt.Sleep(0, time.Duration(wait)*time.Millisecond)
	} else if d := simrt.Choose(4); d > 0 {
		simrt.Sleep(0, time.Duration(d-1)*time.Millisecond)
	}
	r := new(dns.Msg)
	r.SetReply(q)
	// fill with TXT records up to about `size` bytes
	for r.Len() < size-270 {
		r.Answer = append(r.Answer, &dns.TXT{Hdr: dns.RR_Header{Name: q.Question[0].Name, Rrtype: dns.TypeTXT, Class: 1, Ttl: uint32(salt)},
			Txt: []string{string(bytes.Repeat([]byte{byte('a' + salt%26)}, 250))}})
	}
	if simrt.Choose(3) == 0 {
		// a record whose packing yields (see c16yield): the last record, so that the
		// rest of the message is already in the pack buffer when others run
		r.Extra = append(r.Extra, &dns.PrivateRR{Hdr: dns.RR_Header{Name: q.Question[0].Name, Rrtype: c16yieldType, Class: 1, Ttl: uint32(salt)},
			Data: &c16yield{b: bytes.Repeat([]byte{byte('a' + salt%26)}, 16)}})
		simrt.Fault("reply_packing_yields")
	}
	b, err := pack(r)
	if err != nil {
		return nil
	}
	return b
}

func c16Server(rc *RunCtx) {
	l := rc.Net.Listen("tcp", "192.0.2.7:53")
	hd := &c16handler{rc: rc, sent: map[string]bool{}}
	srvDone := make(chan struct{}, 1)
	simrt.GoNamed("ServeTCP", func() {
		server.ServeTCP(l, hd, server.TCPServerOpts{IdleTimeout: 5 * time.Second})
		simrt.Send(0, srvDone, struct{}{})
	})
	nclients := 1 + simrt.Choose(3)
	done := make(chan struct{}, nclients)
	for ci := 0; ci < nclients; ci++ {
		ci := ci
		simrt.GoNamed(fmt.Sprintf("client%d", ci), func() {
			defer simrt.Send(0, done, struct{}{})
			nc, err := rc.Net.Dial(context.Background(), "tcp", "192.0.2.7:53")
			if err != nil {
				panic(err)
			}
			c := nc.(*simnet.Conn)
			slow := simrt.Choose(3) == 0
			if slow {
				// the server's replies back up behind a small window and a reader
				// that drains slower than the server's idle timeout
				c.Peer().SendBuf = []int{64, 300, 2000}[simrt.Choose(3)]
				simrt.Fault("slow_reader_small_window")
			}
			nq := 2 + simrt.Choose(7)
			want := map[uint16]*dns.Msg{}
			for i := 0; i < nq; i++ {
				size := []int{100, 300, 600, 2000, 9000, 30000, 60000}[simrt.Choose(7)]
				q := mkQuery(fmt.Sprintf("s%d.k%d.c%d.test.", size, i+ci*10, ci), dns.TypeTXT, uint16(1000*ci+i))
				want[q.Id] = q
				hd.sent[q.Question[0].Name] = true
				b := packOrPanic(q)
				fb := make([]byte, 2+len(b))
				binary.BigEndian.PutUint16(fb, uint16(len(b)))
				copy(fb[2:], b)
				c.WriteRaw(fb)
			}
			c.SetReadDeadline(time.Now().Add(4 * time.Second))
			stopKeepalive := false
			late := map[uint16]*dns.Msg{}
			if slow {
				c.SetReadDeadline(time.Now().Add(120 * time.Second))
				// keep the server's read side alive while we read slowly
				simrt.GoNamed(fmt.Sprintf("keepalive%d", ci), func() {
					for k := 0; k < 40 && !stopKeepalive && !c.IsClosed(); k++ {
						simrt.Sleep(0, 2*time.Second)
						if stopKeepalive || c.IsClosed() {
							return
						}
						q := mkQuery(fmt.Sprintf("s100.k%d.w60000.c%d.test.", 50+k, ci), dns.TypeTXT, uint16(1000*ci+500+k))
						late[q.Id] = q // answered after a minute; not waited for
						hd.sent[q.Question[0].Name] = true
						b := packOrPanic(q)
						fb := make([]byte, 2+len(b))
						binary.BigEndian.PutUint16(fb, uint16(len(b)))
						copy(fb[2:], b)
						c.WriteRaw(fb)
					}
				}).Daemon = true
			}
			nread := 0
			for len(want) > 0 {
				if slow && nread < 3 {
					simrt.Sleep(0, []time.Duration{0, time.Second, 6 * time.Second, 11 * time.Second}[simrt.Choose(4)])
				}
				nread++
				if slow && nread > nq {
					stopKeepalive = true
				}
				frame, err := indepRead(c)
				if err != nil {
					rc.Fail("reply_stream_broken", "client %d: %d replies outstanding, stream error %v", ci, len(want), err)
					return
				}
				m := new(dns.Msg)
				if err := m.Unpack(frame); err != nil {
					rc.Fail("frame_not_one_intact_reply", "client %d: a %d-byte frame does not parse as a DNS message: %v", ci, len(frame), err)
					return
				}
				q := want[m.Id]
				if q == nil {
					q = late[m.Id]
				}
				if q == nil || len(m.Question) != 1 || m.Question[0].Name != q.Question[0].Name {
					rc.Fail("frame_not_one_intact_reply", "client %d: frame with ID %d / question %v matches no outstanding query", ci, m.Id, m.Question)
					return
				}
				var salt, size int
				fmt.Sscanf(q.Question[0].Name, "s%d.k%d.", &size, &salt)
				for _, rr := range m.Extra {
					if p, ok := rr.(*dns.PrivateRR); ok {
						y, _ := p.Data.(*c16yield)
						if y == nil || len(y.b) != 16 || y.b[0] != byte('a'+salt%26) || p.Hdr.Name != q.Question[0].Name {
							rc.Fail("frame_not_one_intact_reply", "client %d: reply %d carries a foreign or damaged trailing record", ci, m.Id)
							return
						}
					}
				}
				for _, rr := range m.Answer {
					t := rr.(*dns.TXT)
					if len(t.Txt) != 1 || len(t.Txt[0]) != 250 || t.Txt[0][0] != byte('a'+salt%26) || t.Txt[0][249] != byte('a'+salt%26) {
						rc.Fail("frame_not_one_intact_reply", "client %d: reply %d carries foreign or damaged records", ci, m.Id)
						return
					}
				}
				delete(want, m.Id)
				simrt.Probe("c16.server_reply_intact")
			}
			stopKeepalive = true
			if !slow && simrt.Choose(2) == 0 {
				// A frame whose length announces less than a DNS header, followed by
				// more bytes. The runt's body and the following frame are laid out so
				// that a reader which skips only the runt's header finds a well-formed
				// frame: [00 02][hi lo] [len2][rest of a query], hi lo = len2+2, so the
				// "query" has ID len2. The server must report the error (close), never
				// hand those bytes to the handler.
				evil := packOrPanic(mkQuery(fmt.Sprintf("evil%d.test.", ci), dns.TypeA, 0))
				rest := evil[2:]
				var bs []byte
				bs = append(bs, 0, 2, byte((len(rest)+2)>>8), byte(len(rest)+2))
				bs = append(bs, byte(len(rest)>>8), byte(len(rest)))
				bs = append(bs, rest...)
				simrt.Fault("client_runt_frame_then_more_bytes")
				c.WriteRaw(bs)
				c.SetReadDeadline(time.Now().Add(8 * time.Second))
				if frame, err := indepRead(c); err == nil {
					rc.Fail("reply_to_bytes_after_a_runt_frame", "client %d: after a frame of announced length 2 the server went on and answered with a %d-byte frame", ci, len(frame))
					return
				}
				simrt.Probe("c16.runt_frame_ended_the_connection")
			}
			c.Close()
		})
	}
	for i := 0; i < nclients; i++ {
		simrt.Recv(0, done)
	}
	l.Close()
	simrt.Recv(0, srvDone)
}

func c16Post(rc *RunCtx, res simrt.Result) {
	if res.End != simrt.EndClean && rc.Viol == nil {
		rc.Inconcl = "run did not end cleanly: " + res.End.String()
	}
}
