package h

import (
	_ "github.com/IrineSistiana/mosdns/v5/pkg/upstream"
	_ "github.com/IrineSistiana/mosdns/v5/pkg/upstream/transport"
	_ "github.com/anishathalye/porcupine"
)
