package h

import (
	"bytes"
	"context"
	"fmt"
	"net"
	"time"

	"github.com/IrineSistiana/mosdns/v5/pkg/query_context"
	cacheplug "github.com/IrineSistiana/mosdns/v5/plugin/executable/cache"
	"github.com/IrineSistiana/mosdns/v5/plugin/executable/ttl"
	"github.com/miekg/dns"
	"verif/sim/simrt"
)

// C10 — cached answers are isolated from every caller's mutations.
//
// Chain: cache -> observer -> [real ttl plugin] -> vandal -> origin.
// The observer packs whatever the cache just handed out (a hit) before anybody
// else touches it; the vandal then rewrites every field of that message in
// place (TTLs, names, rdata, appends OPT/records, truncates sections). After a
// miss the harness snapshots the stored answer and then vandalises the very
// message object the cache stored from. Every later hit must equal, byte for
// byte, the snapshot aged by the whole seconds elapsed, with the hitting
// query's ID. The same seeds run under the race detector.

func init() {
	Scenarios["C10"] = &Scenario{Setup: c10Setup, Main: c10Main, Post: c10Post, Race: true}
}

type c10ver struct {
	V    uint32
	Key  int
	Snap []byte // packed stored answer (without OPT) at store time
	At   time.Duration
	// Reloaded: the entry went through dump -> load_dump, which keeps its times
	// to the second only
	Reloaded bool
}

type c10cfg struct {
	keys    int
	rounds  int
	maxConc int
	useTTL  bool
	lazy    int
	race    bool
	shortTTL bool
	pDump    int // percent: a dump is taken (and thrown away) while / after a round
	pRestart int // percent: after a round the cache is dumped and reloaded into a new instance
}

func c10Setup(rc *RunCtx) simrt.Config {
	r := rc.R
	cfg, sname := drawSimConfig(r, 100000)
	c := &c10cfg{}
	c.keys = 1 + r.Choose(3)
	c.rounds = 2 + r.Choose(5)
	c.maxConc = 1 + r.Choose(6)
	c.useTTL = r.Choose(2) == 0
	c.lazy = []int{0, 0, 3600}[r.Choose(3)]
	c.shortTTL = r.Choose(2) == 0
	c.pDump = []int{0, 30, 60}[r.Choose(3)]
	c.pRestart = []int{0, 0, 30}[r.Choose(3)]
	rc.Cfg["p_dump"] = c.pDump
	rc.Cfg["p_restart"] = c.pRestart
	rc.Cfg["short_ttl"] = c.shortTTL
	rc.Cfg["strategy"] = sname
	rc.Cfg["kind"] = "cache plugin + mutators"
	rc.Cfg["keys"] = c.keys
	rc.Cfg["rounds"] = c.rounds
	rc.Cfg["max_concurrent"] = c.maxConc
	rc.Cfg["ttl_plugin"] = c.useTTL
	rc.Cfg["lazy"] = c.lazy
	rc.priv = c
	return cfg
}

// vandalize rewrites every field of m in place.
func vandalize(m *dns.Msg, salt int) {
	m.Authoritative = !m.Authoritative
	if salt%4 < 2 {
		// sometimes the rewritten message stays something a cache would accept
		// (no TC, rcode NOERROR) ...
		m.Rcode = (m.Rcode + 3) % 6
		m.Truncated = true
	}
	if salt%2 == 1 {
		// ... and sometimes the question and the ID are left alone: a plugin that
		// rewrites only the records leaves a message that still "answers the question"
		m.Id ^= 0xffff
		for i := range m.Question {
			m.Question[i].Name = "vandal."
			m.Question[i].Qtype = 99
		}
	}
	for _, s := range [][]dns.RR{m.Answer, m.Ns, m.Extra} {
		for _, rr := range s {
			rr.Header().Ttl = uint32(7 + salt)
			rr.Header().Name = "vandal."
			switch x := rr.(type) {
			case *dns.A:
				if len(x.A) > 0 {
					x.A[len(x.A)-1] ^= 0xff // in place: shared backing arrays show up
				}
			case *dns.TXT:
				for i := range x.Txt {
					x.Txt[i] = "vandal"
				}
			case *dns.SOA:
				x.Serial = 0xdeadbeef
				x.Mbox = "vandal."
			case *dns.CNAME:
				x.Target = "vandal."
			}
		}
	}
	o := new(dns.OPT)
	o.Hdr.Name, o.Hdr.Rrtype = ".", dns.TypeOPT
	m.Extra = append(m.Extra, o, &dns.A{Hdr: dns.RR_Header{Name: "x.", Rrtype: dns.TypeA, Class: 1, Ttl: 1}, A: net.IPv4(6, 6, 6, 6)})
	if len(m.Answer) > 1 {
		m.Answer = m.Answer[:1]
	}
	m.Ns = append(m.Ns[:0], &dns.NS{Hdr: dns.RR_Header{Name: "v.", Rrtype: dns.TypeNS, Class: 1, Ttl: 9}, Ns: "v."})
}

func stripOpt(m *dns.Msg) *dns.Msg {
	c := m.Copy()
	ex := c.Extra[:0]
	for _, rr := range c.Extra {
		if rr.Header().Rrtype != dns.TypeOPT {
			ex = append(ex, rr)
		}
	}
	c.Extra = ex
	return c
}

func c10Main(rc *RunCtx) {
	c := rc.priv.(*c10cfg)
	cp := cacheplug.NewCache(&cacheplug.Args{Size: 4096, LazyCacheTTL: c.lazy}, cacheplug.Opts{})
	ttlPlugin := ttl.NewTTL(0, 30, 7200)
	vers := new([4096]*c10ver) // array, not a map: map operations carry race hooks of their own
	type obsKey struct{}
	type obs struct {
		hit []byte
		ver *c10ver
		orig *dns.Msg
	}
	obsOf := func(ctx context.Context) *obs {
		if o, ok := ctx.Value(obsKey{}).(*obs); ok {
			return o
		}
		return &obs{} // the lazy refresh runs on its own context
	}
	observer := execFunc(func(ctx context.Context, qc *query_context.Context) error {
		o := obsOf(ctx)
		if r := qc.R(); r != nil {
			o.hit = packOrPanic(r)
		}
		return nil
	})
	vandal := execFunc(func(ctx context.Context, qc *query_context.Context) error {
		o := obsOf(ctx)
		if r := qc.R(); r != nil && o.hit != nil {
			vandalize(r, simrt.Choose(50))
			simrt.Fault("hit_vandalised")
		}
		return nil
	})
	ttls := []uint32{60, 61, 120, 300, 3600}
	if c.shortTTL {
		ttls = []uint32{1, 2, 3, 4, 60, 300} // entries go stale within the run
	}
	origin := execFunc(func(ctx context.Context, qc *query_context.Context) error {
		if qc.R() != nil {
			return nil
		}
		if ctx.Value(obsKey{}) == nil {
			// the lazy cache's background refresh: it may fail or be slow, so that
			// the stale entry keeps being served for a while
			switch simrt.Choose(4) {
			case 0:
				simrt.Fault("refresh_fails")
				return fmt.Errorf("scripted refresh failure")
			case 1:
				simrt.Fault("refresh_slow")
				simrt.Sleep(0, time.Duration(1+simrt.Choose(4))*time.Second)
			}
		}
		o := obsOf(ctx)
		ans := genAnswer(rc.R, qc.Q(), ttls, false)
		ans.Rcode = dns.RcodeSuccess
		ans.Ns = nil
		nver := uint32(simrt.Tick())
		ans.Ns = append(ans.Ns, &dns.SOA{Hdr: dns.RR_Header{Name: "test.", Rrtype: dns.TypeSOA, Class: dns.ClassINET, Ttl: 600},
			Ns: "ns.test.", Mbox: "ver.test.", Serial: nver, Refresh: 1, Retry: 1, Expire: 1, Minttl: 1})
		if simrt.Choose(2) == 0 {
			op := new(dns.OPT)
			op.Hdr.Name, op.Hdr.Rrtype = ".", dns.TypeOPT
			op.SetUDPSize(1232)
			ans.Extra = append(ans.Extra, op)
			if simrt.Choose(3) == 0 {
				// glue beside the OPT and a second OPT (a sloppy upstream, or a plugin
				// that put one back): SetResponse pops one OPT only, so the answer
				// reaches the cache's store path with an OPT still in it
				ans.Extra = append(ans.Extra, &dns.A{Hdr: dns.RR_Header{Name: "glue.test.", Rrtype: dns.TypeA, Class: dns.ClassINET, Ttl: ttls[len(ttls)-1]}, A: net.IPv4(10, 8, 8, 8)})
				op2 := new(dns.OPT)
				op2.Hdr.Name, op2.Hdr.Rrtype = ".", dns.TypeOPT
				op2.SetUDPSize(4096)
				ans.Extra = append(ans.Extra, op2)
				simrt.Fault("answer_with_two_opts_and_glue")
			}
		}
		o.orig = ans
		// the cache will store exactly this answer (minus OPT) when the chain returns
		nv := &c10ver{V: nver, Snap: packOrPanic(stripOpt(ans)), At: simrt.S.Elapsed(), Key: c10KeyOf(qc.Q())}
		raceSafeStore(vers, nver, nv)
		qc.SetResponse(ans)
		return nil
	})
	walker := walkerOf(observer, vandal, origin)
	if c.useTTL {
		walker = walkerOf(observer, ttlPlugin, vandal, origin)
	}
	for round := 0; round < c.rounds && rc.Viol == nil; round++ {
		n := 1 + simrt.Choose(c.maxConc)
		done := make(chan struct{}, n+1)
		dumping := simrt.Choose(100) < c.pDump
		if dumping {
			// a dump is taken while the instance keeps serving
			simrt.GoNamed(fmt.Sprintf("dump%d", round), func() {
				defer simrt.Send(0, done, struct{}{})
				if simrt.Choose(2) == 0 {
					simrt.Yield(0)
				}
				if _, code := apiDump(cp); code != 200 {
					rc.Fail("dump_failed", "GET /dump returned %d", code)
				}
				simrt.Fault("dump_while_serving")
			})
		}
		for i := 0; i < n; i++ {
			key := simrt.Choose(c.keys)
			id := uint16(simrt.Choose(65536))
			simrt.GoNamed(fmt.Sprintf("q%d.%d", round, i), func() {
				defer simrt.Send(0, done, struct{}{})
				q := mkQuery(fmt.Sprintf("k%d.test.", key), dns.TypeA, id)
				if simrt.Choose(3) == 0 {
					q.SetEdns0(1232, false)
				}
				qCtx := query_context.NewContext(q)
				o := &obs{}
				ctx := context.WithValue(context.Background(), obsKey{}, o)
				if err := cp.Exec(ctx, qCtx, walker); err != nil {
					rc.Fail("exec_error", "%v", err)
					return
				}
				now := simrt.S.Elapsed()
				if o.hit == nil {
					// miss: the cache has stored from the message the origin produced
					r := qCtx.R()
					if r == nil || o.orig == nil {
						return
					}
					simrt.Probe("c10.miss_stored")
					// ... and now the caller (server, later plugins) scribbles all over it
					vandalize(r, simrt.Choose(50))
					simrt.Fault("stored_from_message_vandalised")
					return
				}
				// hit: compare what the cache handed out with the aged snapshot
				hm := new(dns.Msg)
				if err := hm.Unpack(o.hit); err != nil {
					rc.Fail("hit_unparsable", "%v", err)
					return
				}
				v, ok := c05Version(hm)
				var ver *c10ver
				if ok {
					ver = raceSafeLoad(vers, v)
				}
				if ver == nil {
					rc.Fail("hit_without_known_version", "key k%d: hit %s does not carry the version marker of any stored answer", key, msgBrief(o.hit))
					return
				}
				if ver.Key != key {
					rc.Fail("hit_belongs_to_other_question", "query for k%d was served the stored answer of k%d (version %d): %s", key, ver.Key, v, msgBrief(o.hit))
					return
				}
				ref := new(dns.Msg)
				ref.Unpack(ver.Snap)
				el := uint32((now - ver.At) / time.Second)
				life := time.Duration(minTTL(ref)) * time.Second
				stale := now-ver.At >= life
				if stale && c.lazy == 0 {
					return // serving it at all would be C05's business
				}
				for _, s := range [][]dns.RR{ref.Answer, ref.Ns, ref.Extra} {
					for _, rr := range s {
						switch {
						case stale:
							rr.Header().Ttl = 5 // a stale (lazy) hit: same content, TTL 5, the hitting query's ID
						case rr.Header().Ttl > el:
							rr.Header().Ttl -= el
						default:
							rr.Header().Ttl = 1
						}
					}
				}
				if stale {
					simrt.Probe("c10.stale_hit_verified")
				}
				ref.Id = id
				want := packOrPanic(ref)
				if !bytes.Equal(want, o.hit) {
					rc.Fail("hit_differs_from_stored_answer", "key k%d version %d after %v: cache handed out %s, stored answer aged is %s", key, v, now-ver.At, msgBrief(o.hit), msgBrief(want))
					return
				}
				simrt.Probe("c10.hit_verified")
			})
		}
		if dumping {
			n++
		}
		for i := 0; i < n; i++ {
			simrt.Recv(0, done)
		}
		if rc.Viol == nil && simrt.Choose(100) < c.pRestart {
			// restart: dump, load the dump into a new instance, go on with that one
			b, code := apiDump(cp)
			if code != 200 {
				rc.Fail("dump_failed", "GET /dump returned %d", code)
				break
			}
			cp2 := cacheplug.NewCache(&cacheplug.Args{Size: 4096, LazyCacheTTL: c.lazy}, cacheplug.Opts{})
			if code := apiLoad(cp2, b); code != 200 {
				rc.Fail("load_dump_failed", "POST /load_dump of the dump just taken returned %d", code)
				break
			}
			cp.Close()
			cp = cp2
			raceSafeMarkReloaded(vers)
			simrt.Fault("restart_via_dump")
		}
		if simrt.Choose(2) == 0 {
			simrt.Sleep(0, time.Duration(1+simrt.Choose(5))*time.Second)
		}
	}
	cp.Close()
}

//go:norace
func raceSafeStore(m *[4096]*c10ver, k uint32, v *c10ver) { m[k%4096] = v }

//go:norace
func raceSafeLoad(m *[4096]*c10ver, k uint32) *c10ver {
	if v := m[k%4096]; v != nil && v.V == k {
		return v
	}
	return nil
}

//go:norace
func raceSafeMarkReloaded(m *[4096]*c10ver) {
	for _, v := range m {
		if v != nil {
			v.Reloaded = true
		}
	}
}

func c10KeyOf(q *dns.Msg) int {
	k := -1
	if len(q.Question) == 1 {
		fmt.Sscanf(q.Question[0].Name, "k%d.test.", &k)
	}
	return k
}

func c10Post(rc *RunCtx, res simrt.Result) {
	if res.End != simrt.EndClean && rc.Viol == nil {
		rc.Inconcl = "run did not end cleanly: " + res.End.String()
	}
}
