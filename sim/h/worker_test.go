package h

import (
	"encoding/json"
	"fmt"
	"os"
	"strings"
	"testing"
	"testing/synctest"
	"time"

	"verif/sim/simnet"
	"verif/sim/simrt"
)

// TestWorker runs a range of runs of one property. Environment:
//
//	VERIF_PROP      property id (scenario name)
//	VERIF_SEED      seed family
//	VERIF_RUN_FROM  first run index
//	VERIF_RUN_N     number of runs
//	VERIF_OUT       jsonl output (appended)
//	VERIF_BUDGET_S  stop starting runs after this many wall seconds (0 = none)
//	VERIF_REPLAY    JSON file {"choices":[...]}: run once with forced choices
//	VERIF_FULL      1: include choices, trace and netlog in every record
//
// Exit code 3 means "the last run ended abnormally; restart after it".
func TestWorker(t *testing.T) {
	prop := os.Getenv("VERIF_PROP")
	if prop == "" {
		t.Skip("no VERIF_PROP")
	}
	sc := Scenarios[prop]
	if sc == nil {
		fmt.Fprintf(os.Stderr, "unknown scenario %q\n", prop)
		os.Exit(2)
	}
	var seed uint64
	fmt.Sscan(os.Getenv("VERIF_SEED"), &seed)
	from := envInt("VERIF_RUN_FROM", 0)
	n := envInt("VERIF_RUN_N", 1)
	budget := envInt("VERIF_BUDGET_S", 0)
	full := os.Getenv("VERIF_FULL") == "1"
	outName := os.Getenv("VERIF_OUT")
	out := os.Stdout
	if outName != "" {
		f, err := os.OpenFile(outName, os.O_APPEND|os.O_CREATE|os.O_WRONLY, 0o644)
		if err != nil {
			fmt.Fprintln(os.Stderr, err)
			os.Exit(2)
		}
		defer f.Close()
		out = f
	}
	if rp := os.Getenv("VERIF_REPLAY"); rp != "" {
		b, err := os.ReadFile(rp)
		if err != nil {
			fmt.Fprintln(os.Stderr, err)
			os.Exit(2)
		}
		var rf struct {
			Choices []uint32 `json:"choices"`
			Seed    uint64   `json:"seed"`
			Run     int      `json:"run"`
		}
		if err := json.Unmarshal(b, &rf); err != nil {
			fmt.Fprintln(os.Stderr, err)
			os.Exit(2)
		}
		runOne(t, sc, prop, rf.Seed, rf.Run, rf.Choices, true, out)
		return
	}
	if os.Getenv("VERIF_AGG") == "1" && outName != "" {
		theAgg = newAgg()
		pf, err := os.OpenFile(outName+".progress", os.O_APPEND|os.O_CREATE|os.O_WRONLY, 0o644)
		if err == nil {
			progressFile = pf
			defer pf.Close()
		}
	}
	start := time.Now()
	for run := from; run < from+n; run++ {
		if budget > 0 && time.Since(start) > time.Duration(budget)*time.Second {
			break
		}
		if progressFile != nil {
			fmt.Fprintf(progressFile, "%d\n", run)
		}
		runOne(t, sc, prop, seed, run, nil, full, out)
	}
	flushAgg(out)
}

// ---- aggregation: one summary line per worker process instead of one line per run ----

type aggT struct {
	First, Last int
	Runs        int            `json:"runs"`
	Steps       int64          `json:"steps"`
	SimNs       int64          `json:"sim_ns"`
	Ends        map[string]int `json:"ends"`
	Inconcl     map[string]int `json:"inconclusive"`
	Probes      map[string]int `json:"probes"`
	Faults      map[string]int `json:"faults"`
	Strategies  map[string]int `json:"strategies"`
	CfgDist     map[string]map[string]int `json:"cfgdist"`
	CfgSums     map[string]float64 `json:"cfgsums"`
	All         []string       `json:"all"`        // distinct sched^trace hashes
	Nontrivial  []string       `json:"nontrivial"` // ... of non-trivial runs
	Edges       []uint64       `json:"edges"`
	all, nontriv map[string]struct{}
	edges       map[uint64]struct{}
}

var (
	theAgg       *aggT
	progressFile *os.File
)

func newAgg() *aggT {
	return &aggT{First: -1, Ends: map[string]int{}, Inconcl: map[string]int{}, Probes: map[string]int{}, Faults: map[string]int{}, Strategies: map[string]int{},
		CfgDist: map[string]map[string]int{}, CfgSums: map[string]float64{}, all: map[string]struct{}{}, nontriv: map[string]struct{}{}, edges: map[uint64]struct{}{}}
}

func (a *aggT) add(rec *Record, edges []uint64) {
	if a.First < 0 {
		a.First = rec.Run
	}
	a.Last = rec.Run
	a.Runs++
	a.Steps += int64(rec.Steps)
	a.SimNs += rec.SimNs
	a.Ends[rec.End]++
	if rec.Inconcl != "" {
		a.Inconcl[rec.Inconcl]++
	}
	nf := 0
	for k, v := range rec.Probes {
		a.Probes[k] += v
	}
	for k, v := range rec.Faults {
		a.Faults[k] += v
		nf += v
	}
	if st, ok := rec.Cfg["strategy"].(string); ok {
		a.Strategies[st]++
	}
	for _, k := range strings.Split(os.Getenv("VERIF_CFG_KEYS"), ",") {
		if v, ok := rec.Cfg[k]; ok && k != "" {
			if a.CfgDist[k] == nil {
				a.CfgDist[k] = map[string]int{}
			}
			a.CfgDist[k][fmt.Sprint(v)]++
		}
	}
	for _, k := range strings.Split(os.Getenv("VERIF_CFG_SUM_KEYS"), ",") {
		switch v := rec.Cfg[k].(type) {
		case int:
			a.CfgSums[k] += float64(v)
		case float64:
			a.CfgSums[k] += v
		}
	}
	h := rec.SchedHash + rec.TraceHash
	a.all[h] = struct{}{}
	if nf > 0 || (rec.Switches >= 3 && rec.Contended >= 1) {
		a.nontriv[h] = struct{}{}
	}
	for _, e := range edges {
		a.edges[e] = struct{}{}
	}
}

func flushAgg(out *os.File) {
	a := theAgg
	if a == nil || a.Runs == 0 {
		return
	}
	for h := range a.all {
		a.All = append(a.All, h)
	}
	for h := range a.nontriv {
		a.Nontrivial = append(a.Nontrivial, h)
	}
	for e := range a.edges {
		a.Edges = append(a.Edges, e)
	}
	writeJSONLine(out, map[string]any{"agg": a})
	theAgg = newAgg()
}

func runOne(t *testing.T, sc *Scenario, prop string, seed uint64, run int, forced []uint32, full bool, out *os.File) {
	var rng *simrt.Rand
	if forced != nil {
		rng = simrt.NewReplay(forced)
	} else {
		rng = simrt.NewRand(runSeed(seed, prop, run))
	}
	wall := time.Now() // real time: outside the bubble
	synctest.Test(t, func(t *testing.T) {
		rc := &RunCtx{Prop: prop, Seed: seed, Run: run, R: rng, Cfg: map[string]any{}}
		rc.Net = simnet.New()
		rc.installBufs()
		simrt.DialHook = rc.Net.Dial
		cfg := sc.Setup(rc)
		if cfg.TraceLimit == 0 {
			cfg.TraceLimit = 50000
		}
		// keep a handle on the Sim: simrt.S is cleared when Run returns
		var sim *simrt.Sim
		res := simrt.Run(cfg, rng, func() {
			sim = simrt.S
			sc.Main(rc)
		})
		simrt.DialHook = nil
		simrt.CreateHook = nil
		simrt.OpenHook = nil
		if rc.Viol == nil && (res.End == simrt.EndClean || res.End == simrt.EndStuck || res.End == simrt.EndDeadlock) {
			rc.checkHeld()
		}
		restoreBufs()
		if rc.Viol == nil && sc.Post != nil && res.End != simrt.EndAbort && res.End != simrt.EndPanic {
			simSnapshotTasks = sim.Tasks()
			sc.Post(rc, res)
			simSnapshotTasks = nil
		}
		rec := &Record{
			Prop: prop, Seed: seed, Run: run,
			End: res.End.String(), EndMsg: res.Msg, Steps: res.Steps, SimNs: int64(res.Elapsed),
			TraceHash: hx(res.TraceHash), SchedHash: hx(sim.SchedHash()),
			Contended: sim.Contended(), Switches: sim.Switches(), Tasks: len(sim.Tasks()),
			Probes: sim.Probes(), Faults: sim.Faults(), Cfg: rc.Cfg, Viol: rc.Viol,
			Inconcl: rc.Inconcl, NChoices: len(rng.Log), Leaked: res.Leaked, Notes: rc.Notes,
		}
		if res.End == simrt.EndPanic && rc.Viol == nil {
			if strings.Contains(res.Msg, "simrt: ") {
				// a limit of the simulator itself, not a property of mosdns
				rec.Inconcl = "simulator limit: " + res.Msg
			} else {
				rec.Viol = &Violation{Class: "panic", Msg: res.Msg, Step: res.Steps}
			}
		}
		if res.End == simrt.EndStepCap && rec.Inconcl == "" {
			rec.Inconcl = "step cap"
		}
		if full || rec.Viol != nil || run%97 == 0 {
			rec.Choices = append([]uint32(nil), rng.Log...)
			rec.Trace = formatTrace(sim.Trace(), sim.Tasks(), 400)
			rec.NetLog = formatNetLog(rc.Net, 200)
		}
		if full || run%40 == 0 {
			rec.Edges = sim.Edges()
		}
		_ = wall
		if theAgg != nil {
			var ed []uint64
			if run%40 == 0 {
				ed = sim.Edges()
			}
			theAgg.add(rec, ed)
			// full records only for violations and a few samples
			if rec.Viol != nil || run%97 == 0 {
				writeJSONLine(out, rec)
			}
		} else {
			writeJSONLine(out, rec)
		}
		if res.End != simrt.EndClean {
			// The bubble cannot be left cleanly with blocked tasks: end the
			// process, the driver restarts after this run.
			flushAgg(out)
			out.Sync()
			os.Exit(3)
		}
	})
}
