package h

import (
	"encoding/json"
	"fmt"
	"os"
	"testing"
	"testing/synctest"
	"time"

	"verif/sim/simnet"
	"verif/sim/simrt"
)

// TestWorker runs a range of runs of one property. Environment:
//
//	VERIF_PROP      property id (scenario name)
//	VERIF_SEED      seed family
//	VERIF_RUN_FROM  first run index
//	VERIF_RUN_N     number of runs
//	VERIF_OUT       jsonl output (appended)
//	VERIF_BUDGET_S  stop starting runs after this many wall seconds (0 = none)
//	VERIF_REPLAY    JSON file {"choices":[...]}: run once with forced choices
//	VERIF_FULL      1: include choices, trace and netlog in every record
//
// Exit code 3 means "the last run ended abnormally; restart after it".
func TestWorker(t *testing.T) {
	prop := os.Getenv("VERIF_PROP")
	if prop == "" {
		t.Skip("no VERIF_PROP")
	}
	sc := Scenarios[prop]
	if sc == nil {
		fmt.Fprintf(os.Stderr, "unknown scenario %q\n", prop)
		os.Exit(2)
	}
	var seed uint64
	fmt.Sscan(os.Getenv("VERIF_SEED"), &seed)
	from := envInt("VERIF_RUN_FROM", 0)
	n := envInt("VERIF_RUN_N", 1)
	budget := envInt("VERIF_BUDGET_S", 0)
	full := os.Getenv("VERIF_FULL") == "1"
	outName := os.Getenv("VERIF_OUT")
	out := os.Stdout
	if outName != "" {
		f, err := os.OpenFile(outName, os.O_APPEND|os.O_CREATE|os.O_WRONLY, 0o644)
		if err != nil {
			fmt.Fprintln(os.Stderr, err)
			os.Exit(2)
		}
		defer f.Close()
		out = f
	}
	if rp := os.Getenv("VERIF_REPLAY"); rp != "" {
		b, err := os.ReadFile(rp)
		if err != nil {
			fmt.Fprintln(os.Stderr, err)
			os.Exit(2)
		}
		var rf struct {
			Choices []uint32 `json:"choices"`
			Seed    uint64   `json:"seed"`
			Run     int      `json:"run"`
		}
		if err := json.Unmarshal(b, &rf); err != nil {
			fmt.Fprintln(os.Stderr, err)
			os.Exit(2)
		}
		runOne(t, sc, prop, rf.Seed, rf.Run, rf.Choices, true, out)
		return
	}
	start := time.Now()
	for run := from; run < from+n; run++ {
		if budget > 0 && time.Since(start) > time.Duration(budget)*time.Second {
			break
		}
		runOne(t, sc, prop, seed, run, nil, full, out)
	}
}

func runOne(t *testing.T, sc *Scenario, prop string, seed uint64, run int, forced []uint32, full bool, out *os.File) {
	var rng *simrt.Rand
	if forced != nil {
		rng = simrt.NewReplay(forced)
	} else {
		rng = simrt.NewRand(runSeed(seed, prop, run))
	}
	wall := time.Now() // real time: outside the bubble
	synctest.Test(t, func(t *testing.T) {
		rc := &RunCtx{Prop: prop, Seed: seed, Run: run, R: rng, Cfg: map[string]any{}}
		rc.Net = simnet.New()
		rc.installBufs()
		simrt.DialHook = rc.Net.Dial
		cfg := sc.Setup(rc)
		if cfg.TraceLimit == 0 {
			cfg.TraceLimit = 50000
		}
		// keep a handle on the Sim: simrt.S is cleared when Run returns
		var sim *simrt.Sim
		res := simrt.Run(cfg, rng, func() {
			sim = simrt.S
			sc.Main(rc)
		})
		simrt.DialHook = nil
		simrt.CreateHook = nil
		simrt.OpenHook = nil
		restoreBufs()
		if rc.Viol == nil && sc.Post != nil && res.End != simrt.EndAbort && res.End != simrt.EndPanic {
			simSnapshotTasks = sim.Tasks()
			sc.Post(rc, res)
			simSnapshotTasks = nil
		}
		rec := &Record{
			Prop: prop, Seed: seed, Run: run,
			End: res.End.String(), EndMsg: res.Msg, Steps: res.Steps, SimNs: int64(res.Elapsed),
			TraceHash: hx(res.TraceHash), SchedHash: hx(sim.SchedHash()),
			Contended: sim.Contended(), Switches: sim.Switches(), Tasks: len(sim.Tasks()),
			Probes: sim.Probes(), Faults: sim.Faults(), Cfg: rc.Cfg, Viol: rc.Viol,
			Inconcl: rc.Inconcl, NChoices: len(rng.Log), Leaked: res.Leaked, Notes: rc.Notes,
		}
		if res.End == simrt.EndPanic && rc.Viol == nil {
			rec.Viol = &Violation{Class: "panic", Msg: res.Msg, Step: res.Steps}
		}
		if res.End == simrt.EndStepCap && rec.Inconcl == "" {
			rec.Inconcl = "step cap"
		}
		if full || rec.Viol != nil || run%97 == 0 {
			rec.Choices = append([]uint32(nil), rng.Log...)
			rec.Trace = formatTrace(sim.Trace(), sim.Tasks(), 400)
			rec.NetLog = formatNetLog(rc.Net, 200)
		}
		if full || run%40 == 0 {
			rec.Edges = sim.Edges()
		}
		rec.WallUs = time.Since(wall).Microseconds() // fake clock inside bubble; overwritten below
		rec.WallUs = 0
		writeJSONLine(out, rec)
		if res.End != simrt.EndClean {
			// The bubble cannot be left cleanly with blocked tasks: end the
			// process, the driver restarts after this run.
			out.Sync()
			os.Exit(3)
		}
	})
}
