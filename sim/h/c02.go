package h

import (
	"context"
	"fmt"
	"time"

	"github.com/IrineSistiana/mosdns/v5/pkg/upstream"
	"github.com/IrineSistiana/mosdns/v5/pkg/upstream/transport"
	"verif/sim/simnet"
	"verif/sim/simrt"
)

// C02 — a reply that arrives in time is never lost.
//
// Workload: 1–4 callers × 1–3 sequential exchanges on one transport, no
// cancellations, no packet loss, deadlines far away. Adversary: reply latency
// (mostly 0 so the reply reaches the reader before the caller has parked),
// duplicate replies, EOF/RST directly after a reply, stream chunking, and the
// PRNG scheduler.
//
// Oracle: when the client end consumes the last byte of a reply for call X on
// the connection and wire ID of X's latest transmission while X is outstanding,
// X must return success with one of those replies and its query must not be
// transmitted again afterwards.

func init() {
	Scenarios["C02"] = &Scenario{Setup: c02Setup, Main: c02Main, Post: c02Post}
}

type c02cfg struct {
	kind     TransportKind
	callers  int
	perCall  []int
	deadline []time.Duration
	w        *W1
	u        upstream.Upstream
	pZero    int // percent of zero-latency replies
	pClose   int
	pReset   int
	pDup     int
	tieD     time.Duration
	pRunt    int
	// "history" family: one bare TraditionalDnsConn, calls separated by pauses,
	// some abandoned by short deadlines before their (late, then unmatched) reply
	hist     bool
	histStream bool
	pauses   [][]time.Duration
	// "wrap" family: the wire-ID allocator is rewound onto IDs still outstanding
	wrap     bool
	idle     time.Duration // idle timeout of the transport's connections (0 = default)
}

// directConn drives one bare pipelined connection (no transport-level retry on
// top of it), the observation point the property names.
type directConn struct{ dc *transport.TraditionalDnsConn }

func (d directConn) ExchangeContext(ctx context.Context, m []byte) (*[]byte, error) {
	rx, closed := d.dc.ReserveNewQuery()
	if rx == nil {
		return nil, fmt.Errorf("direct connection refuses a new query (closed=%v)", closed)
	}
	return rx.ExchangeReserved(ctx, m)
}
func (d directConn) Close() error { return d.dc.Close() }

func c02Setup(rc *RunCtx) simrt.Config {
	r := rc.R
	cfg, sname := drawSimConfig(r, 20000)
	c := &c02cfg{}
	c.kind = TransportKind(r.Choose(6))
	c.callers = 1 + r.Choose(widen(4, 8))
	for i := 0; i < c.callers; i++ {
		c.perCall = append(c.perCall, 1+r.Choose(widen(3, 6)))
		// Far deadlines, plus short ones chosen from the server's latency set so that
		// OTHER callers' contexts end at the very instant a reply arrives (a call
		// whose own context has ended by then is outside the property).
		c.deadline = append(c.deadline, []time.Duration{0, 0, 20 * time.Second, 60 * time.Second, time.Millisecond, 50 * time.Millisecond, time.Second}[r.Choose(7)])
	}
	c.pZero = []int{100, 80, 50}[r.Choose(3)]
	if c.kind.stream() {
		c.pClose = []int{0, 0, 20, 50}[r.Choose(4)]
		c.pReset = []int{0, 0, 10, 30}[r.Choose(4)]
	}
	if c.kind.pipelined() {
		c.pDup = []int{0, 0, 20, 60}[r.Choose(4)]
	}
	if !c.kind.stream() {
		c.pRunt = []int{0, 0, 25}[r.Choose(3)]
	}
	if r.Choose(6) == 0 {
		// "tie" family: non-pipelined connections shared by several callers, every
		// reply arrives after exactly tieD, and some callers' deadlines are exactly
		// tieD: a context ends at the instant its reply arrives while other callers
		// (whose contexts are live) reuse the same connection.
		c.tieD = []time.Duration{time.Millisecond, 50 * time.Millisecond}[r.Choose(2)]
		c.kind = []TransportKind{TkTCP, TkReuse}[r.Choose(2)]
		c.callers = 2 + r.Choose(3)
		c.perCall, c.deadline = nil, nil
		for i := 0; i < c.callers; i++ {
			c.perCall = append(c.perCall, 2+r.Choose(3))
			c.deadline = append(c.deadline, []time.Duration{0, c.tieD}[r.Choose(2)])
		}
		c.pClose, c.pReset, c.pDup = 0, 0, 0
	}
	if c.tieD == 0 {
		switch r.Choose(8) {
		case 0:
			c.hist = true
			c.histStream = r.Choose(2) == 0
			c.kind = TkPipelineDgram
			if c.histStream {
				c.kind = TkPipelineStream
			}
			c.callers = 1 + r.Choose(2)
			c.perCall, c.deadline, c.pauses = nil, nil, nil
			for i := 0; i < c.callers; i++ {
				n := 3 + r.Choose(widen(4, 8))
				c.perCall = append(c.perCall, n)
				c.deadline = append(c.deadline, 0) // drawn per call
				var ps []time.Duration
				for j := 0; j < n; j++ {
					ps = append(ps, []time.Duration{0, 0, 100 * time.Millisecond, time.Second, 5 * time.Second, 9300 * time.Millisecond, 9600 * time.Millisecond, 9900 * time.Millisecond, 10100 * time.Millisecond}[r.Choose(9)])
				}
				c.pauses = append(c.pauses, ps)
			}
			c.pClose, c.pReset, c.pDup, c.pRunt = 0, 0, 0, 0
			c.pZero = 40
		case 1:
			c.wrap = true
			c.kind = []TransportKind{TkPipelineStream, TkPipelineDgram}[r.Choose(2)]
			c.callers = 2 + r.Choose(widen(4, 8))
			c.perCall, c.deadline = nil, nil
			for i := 0; i < c.callers; i++ {
				c.perCall = append(c.perCall, 1+r.Choose(widen(4, 6)))
				c.deadline = append(c.deadline, []time.Duration{0, 20 * time.Second}[r.Choose(2)])
			}
			// scope: no reply may outlive its query across the emulated 65536 queries
			c.pClose, c.pReset, c.pDup, c.pRunt = 0, 0, 0, 0
			c.pZero = 30
		}
	}
	if c.tieD == 0 && !c.hist && !c.wrap && c.kind.pipelined() && c.kind != TkUDP && r.Choose(4) == 0 {
		// The same on pipelined connections: while any query is in flight the
		// connection is not idle, so the idle deadline must not apply (one caller
		// or several; see DESIGN 12.3/12.4 for the history of this family).
		if r.Choose(2) == 0 {
			c.callers = 1
			c.perCall = []int{2 + r.Choose(widen(5, 9))}
			c.deadline = []time.Duration{[]time.Duration{0, 20 * time.Second}[r.Choose(2)]}
		}
		c.idle = []time.Duration{200500 * time.Microsecond, 750500 * time.Microsecond}[r.Choose(2)]
		c.pDup = 0
	} else if c.tieD == 0 && !c.hist && !c.wrap && (c.kind == TkTCP || c.kind == TkReuse) && r.Choose(2) == 0 {
		// Non-pipelined connections (one query at a time, which arms its own 6 s
		// deadline) with idle timeouts shorter than the reply latencies: the idle
		// deadline must not apply while the query is in flight. (On a pipelined
		// connection the idle timeout by design also bounds the gap between two
		// replies, so an idle timeout below the server's latency is a
		// misconfiguration there, not a healthy connection.) The half millisecond keeps
		// an idle expiry from ever coinciding with the start of a call (every other
		// duration in this scenario is a whole number of milliseconds).
		c.idle = []time.Duration{200500 * time.Microsecond, 750500 * time.Microsecond}[r.Choose(2)]
	}
	rc.Cfg["idle_us"] = int(c.idle / time.Microsecond)
	rc.Cfg["history"] = c.hist
	rc.Cfg["wrap"] = c.wrap
	rc.Cfg["tie_ms"] = int(c.tieD / time.Millisecond)
	rc.Net.ChunkMode = r.Choose(3)
	// Connection breaks are observed by the reader only (after the reply), as in
	// the property's fault model; a concurrent write error of another caller is
	// a different fault.
	rc.Net.LazyRST = true
	rc.Cfg["strategy"] = sname
	rc.Cfg["kind"] = c.kind.String()
	rc.Cfg["callers"] = c.callers
	rc.Cfg["per_call"] = c.perCall
	rc.Cfg["p_zero_latency"] = c.pZero
	rc.Cfg["p_close_after"] = c.pClose
	rc.Cfg["p_reset_after"] = c.pReset
	rc.Cfg["p_dup"] = c.pDup
	rc.Cfg["p_runt"] = c.pRunt
	rc.Cfg["chunk"] = rc.Net.ChunkMode
	rc.priv = c
	return cfg
}

func c02Main(rc *RunCtx) {
	c := rc.priv.(*c02cfg)
	w := newW1(rc)
	c.w = w
	plan := func(sc *simnet.Conn, nth int, call *Call, wid uint16) Action {
		a := Action{}
		if c.tieD > 0 {
			a.Delay = c.tieD
			return a
		}
		if c.hist {
			if simrt.Choose(100) >= c.pZero {
				a.Delay = []time.Duration{time.Millisecond, 50 * time.Millisecond, 700 * time.Millisecond, 2500 * time.Millisecond}[simrt.Choose(4)]
			}
			return a
		}
		if c.wrap {
			if simrt.Choose(100) >= c.pZero {
				a.Delay = []time.Duration{time.Millisecond, 3 * time.Millisecond, 8 * time.Millisecond, 50 * time.Millisecond}[simrt.Choose(4)]
			}
			return a
		}
		if simrt.Choose(100) >= c.pZero {
			a.Delay = []time.Duration{time.Millisecond, 50 * time.Millisecond, 999 * time.Millisecond, time.Second, 1001 * time.Millisecond, 2500 * time.Millisecond}[simrt.Choose(6)]
		}
		x := simrt.Choose(100)
		if x < c.pClose {
			a.CloseAfter = true
		} else if x < c.pClose+c.pReset {
			a.ResetAfter = true
		}
		if simrt.Choose(100) < c.pDup {
			a.Dup = 1
			if simrt.Choose(2) == 0 {
				a.DupDelay = time.Millisecond
			}
		}
		if !sc.Stream && simrt.Choose(100) < c.pRunt {
			a.Runt = true
		}
		return a
	}
	serve := w.Serve(ServerOpts{Plan: plan})
	rc.Net.Handle("udp", srvAddr, serve)
	rc.Net.Handle("tcp", srvAddr, serve)
	rc.Net.OnEvent = func(e simnet.Event) { c02OnEvent(rc, w, e) }

	var u upstream.Upstream
	switch {
	case c.hist:
		network := "udp"
		if c.histStream {
			network = "tcp"
		}
		nc, err := rc.Net.Dial(context.Background(), network, srvAddr)
		if err != nil {
			panic(err)
		}
		u = directConn{transport.NewDnsConn(transport.TraditionalDnsConnOpts{WithLengthHeader: c.histStream, IdleTimeout: 5 * time.Minute}, nc)}
	case c.wrap:
		stream := c.kind == TkPipelineStream
		network := "udp"
		if stream {
			network = "tcp"
		}
		var dcs []*transport.TraditionalDnsConn
		start := uint16(0xFFFF - simrt.Choose(4))
		u = transport.NewPipelineTransport(transport.PipelineOpts{
			DialContext: func(ctx context.Context) (transport.DnsConn, error) {
				nc, err := rc.Net.Dial(ctx, network, srvAddr)
				if err != nil {
					return nil, err
				}
				dc := transport.NewDnsConn(transport.TraditionalDnsConnOpts{WithLengthHeader: stream}, nc)
				dc.VerifSetNextQid(start)
				dcs = append(dcs, dc)
				return dc, nil
			},
		})
		// the state after 65536 further queries: the allocator is back on IDs
		// that may still be waiting for their reply
		nrew := 1 + simrt.Choose(4)
		simrt.GoNamed("rewind", func() {
			for i := 0; i < nrew; i++ {
				simrt.Sleep(0, time.Duration(1+simrt.Choose(6))*time.Millisecond)
				for _, dc := range dcs {
					if q, _ := dc.VerifQueueLen(); q > 0 {
						simrt.Probe("c02.rewind_with_outstanding")
					}
					dc.VerifSetNextQid(start)
				}
				simrt.Fault("wire_id_rewind")
			}
		}).Daemon = true
	default:
		u = w.NewTransport(c.kind, TransportOpts{MaxCQ: 0, IdleTimeout: c.idle})
	}
	c.u = u
	done := make(chan struct{}, c.callers)
	for ci := 0; ci < c.callers; ci++ {
		ci := ci
		simrt.GoNamed(fmt.Sprintf("caller%d", ci), func() {
			for s := 0; s < c.perCall[ci]; s++ {
				call := w.NewCall(ci, s, uint16(simrt.Choose(65536)), 1)
				d := c.deadline[ci]
				if c.hist {
					if p := c.pauses[ci][s]; p > 0 {
						simrt.Sleep(0, p)
					}
					d = []time.Duration{0, 20 * time.Second, 5 * time.Second, time.Millisecond, 50 * time.Millisecond, time.Second}[simrt.Choose(6)]
				}
				if d > 0 {
					ctx, cancel := context.WithTimeout(context.Background(), d)
					call.Ctx, call.Cancel = ctx, cancel
					call.Deadline = simrt.S.Elapsed() + d
				}
				w.Exchange(u, call)
				if call.Cancel != nil {
					call.Cancel()
				}
				w.CheckProvenance(call)
				c02CheckCall(rc, call, false)
				if c.hist && rc.Viol == nil {
					c02CheckHealthy(rc, call)
				}
				if rc.Viol != nil {
					break
				}
			}
			simrt.Send(0, done, struct{}{})
		})
	}
	for i := 0; i < c.callers; i++ {
		simrt.Recv(0, done)
	}
	u.Close()
}

func c02OnEvent(rc *RunCtx, w *W1, e simnet.Event) {
	if e.Kind == "close" && e.Side == "c" && !w.Closed {
		// The client closes a connection. If the server has neither closed nor
		// reset it, every query in flight on it whose caller is still waiting
		// with a live context loses a reply that was going to arrive in time (the
		// server of this scenario answers everything within 2.5 s): liveness
		// detection has killed a healthy connection.
		cc := rc.Net.Conns()[e.Conn]
		if !cc.Peer().IsClosed() {
			for _, x := range w.Calls {
				if !x.Started || x.Done || len(x.Txs) == 0 || len(x.Timely) > 0 {
					continue
				}
				if x.Deadline > 0 && e.At >= x.Deadline {
					continue
				}
				if last := x.Txs[len(x.Txs)-1]; last.Conn == e.Conn && x.KilledAt == 0 {
					x.KilledAt, x.KilledConn = e.At+1, e.Conn
				}
			}
		}
		return
	}
	if e.Kind == "write" && e.Side == "s" {
		// a reply reaches the client's receive buffer
		if info, ok := e.Tag.(ReplyInfo); ok && info.Call >= 0 {
			x := w.Calls[info.Call]
			if x.Started && !x.Done && len(x.Txs) > 0 && !w.Closed && (x.Ctx == nil || x.Ctx.Err() == nil) {
				last := x.Txs[len(x.Txs)-1]
				if last.Conn == info.Conn && last.WireID == info.WireID && !rc.Net.Conns()[info.Conn].IsClosed() {
					x.Delivered = append(x.Delivered, DeliveredReply{Nonce: info.Nonce, Conn: info.Conn, At: e.At, Step: e.Step})
				}
			}
		}
		return
	}
	if e.Kind != "consumed" || e.Side != "c" {
		return
	}
	info, ok := e.Tag.(ReplyInfo)
	if !ok || info.Call < 0 {
		return
	}
	x := w.Calls[info.Call]
	if !x.Started || x.Done || len(x.Txs) == 0 || w.Closed {
		return
	}
	last := x.Txs[len(x.Txs)-1]
	if last.Conn != info.Conn || last.WireID != info.WireID {
		return
	}
	if x.Ctx != nil && x.Ctx.Err() != nil {
		return
	}
	if x.Deadline > 0 && e.At >= x.Deadline {
		return // the deadline instant itself is a tie
	}
	if len(x.Timely) == 0 {
		x.TimelyStep = e.Step
		x.TimelyAt = e.At
		simrt.Probe("c02.timely_reply")
		if e.At == last.At {
			simrt.Probe("c02.reply_consumed_same_instant_as_send")
		}
	}
	x.Timely = append(x.Timely, info.Nonce)
}

func c02CheckCall(rc *RunCtx, x *Call, final bool) {
	if x.KilledAt > 0 && x.Done && (x.Deadline == 0 || x.KilledAt-1 < x.Deadline) {
		rc.Fail("healthy_connection_closed_with_query_in_flight", "call %d (%s): transmitted on connection %d, which the client closed at t=%v although the server had not closed it and the call's context was live; its reply was due within 2.5s of the send (call ended at t=%v, err=%v)",
			x.Idx, x.QName, x.KilledConn, x.KilledAt-1, x.EndAt, x.Err)
		return
	}
	if len(x.Timely) == 0 {
		// Never consumed. If a reply sat in the connection's receive buffer at an
		// earlier virtual instant than the one at which the call gave up (so the
		// reader had every opportunity to read it) and before the deadline, the
		// reply was received on the connection and then lost.
		for _, d := range x.Delivered {
			if x.Deadline > 0 && d.At >= x.Deadline {
				continue
			}
			if x.Done && x.Err != nil && d.At < x.EndAt {
				rc.Fail("delivered_reply_never_read", "call %d (%s): its reply (nonce %d) reached connection %d at t=%v and was never read; the call failed at t=%v with %q",
					x.Idx, x.QName, d.Nonce, d.Conn, d.At, x.EndAt, x.Err)
				return
			}
			if !x.Done && final {
				rc.Fail("delivered_reply_call_never_returned", "call %d (%s): its reply (nonce %d) reached connection %d at t=%v, was never read, and the call never returned",
					x.Idx, x.QName, d.Nonce, d.Conn, d.At)
				return
			}
		}
		return
	}
	if !x.Done {
		if final {
			rc.Fail("timely_reply_call_never_returned", "call %d (%s): reply consumed at step %d t=%v but the call never returned", x.Idx, x.QName, x.TimelyStep, x.TimelyAt)
		}
		return
	}
	if x.Err != nil {
		rc.Fail("timely_reply_lost", "call %d (%s): its reply (nonce %v) was consumed on the connection at step %d t=%v, before the deadline, but the call returned error %q at t=%v",
			x.Idx, x.QName, x.Timely, x.TimelyStep, x.TimelyAt, x.Err, x.EndAt)
		return
	}
	nonce, _, _, err := replyNonce(x.Resp)
	if err != nil {
		return // C01's business
	}
	found := false
	for _, n := range x.Timely {
		if n == nonce {
			found = true
		}
	}
	last := x.Txs[len(x.Txs)-1]
	for _, tx := range x.Txs {
		if tx.Step > x.TimelyStep {
			if tx.Conn == last.Conn && tx.WireID == last.WireID && tx.At == x.TimelyAt && !tx.Stream {
				// A datagram resend tick that fires at the very instant the reply
				// arrives is a tie, not "waiting for a retransmission".
				simrt.Probe("c02.resend_tie")
				continue
			}
			rc.Fail("retransmitted_after_timely_reply", "call %d (%s): reply consumed at step %d t=%v but the query was transmitted again at step %d t=%v (conn %d)",
				x.Idx, x.QName, x.TimelyStep, x.TimelyAt, tx.Step, tx.At, tx.Conn)
			return
		}
	}
	if !found {
		rc.Fail("timely_reply_not_returned", "call %d (%s): returned nonce %d, but the replies consumed in time were %v", x.Idx, x.QName, nonce, x.Timely)
	}
}

// c02CheckHealthy (history family): the server answers every query within 2.5 s
// and never closes the connection, and the connection's idle timeout is far
// away. A call whose context is still live must therefore not fail: if it does,
// the client's liveness detection has killed a healthy connection and with it a
// reply that was on its way in time.
func c02CheckHealthy(rc *RunCtx, x *Call) {
	if !x.Done || x.Err == nil {
		return
	}
	if len(x.Txs) == 0 {
		// never transmitted: the connection had been closed while idle, which
		// ends this history (idle closes are not this property's business)
		simrt.Probe("c02.history_ended_by_idle_close")
		return
	}
	if x.Deadline > 0 && x.EndAt >= x.Deadline {
		simrt.Probe("c02.abandoned_query") // its late reply will match no waiter
		return
	}
	rc.Fail("call_failed_on_healthy_connection", "call %d (%s): started t=%v, failed at t=%v with %q although its context was live (deadline %v), the server answers within 2.5s and never closed the connection",
		x.Idx, x.QName, x.StartAt, x.EndAt, x.Err, x.Deadline)
}

func c02Post(rc *RunCtx, res simrt.Result) {
	c := rc.priv.(*c02cfg)
	if c.w == nil {
		return
	}
	for _, x := range c.w.Calls {
		c02CheckCall(rc, x, true)
	}
	if res.End != simrt.EndClean && rc.Viol == nil {
		rc.Inconcl = "run did not end cleanly: " + res.End.String()
	}
}
