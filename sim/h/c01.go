package h

import (
	"context"
	"fmt"
	"time"

	"github.com/IrineSistiana/mosdns/v5/pkg/upstream"
	"github.com/IrineSistiana/mosdns/v5/pkg/upstream/transport"
	"verif/sim/simnet"
	"verif/sim/simrt"
)

// C01 — every upstream exchange returns the reply to its own query.
//
// Workload: 1–8 callers × 1–6 exchanges with unique questions; caller IDs from
// {0, 0xFFFF, a shared colliding value, random}; some calls cancelled mid
// flight. Adversary: replies delayed by PRNG amounts (=> permuted), duplicated,
// strays with unused IDs, late replies to cancelled queries, datagram loss;
// wire-ID wrap (nextQid near 0xFFFF with queries held outstanding).
// Oracle: provenance of every successful reply (CheckProvenance), buffers
// poisoned on release.

func init() {
	Scenarios["C01"] = &Scenario{Setup: c01Setup, Main: c01Main, Post: c01Post}
}

type c01cfg struct {
	kind     TransportKind
	callers  int
	perCall  []int
	idMode   int
	pCancel  int
	pDup     int
	pStray   int
	pDelay   int
	pDrop    int
	pTC, pTCPFail int
	pClose   int
	wrap     bool
	surplus  bool
	exhaust  bool // family: wire-ID exhaustion next to the 16-bit wrap (see c01Exhaust)
	maxCQ    int
	w        *W1
}

func c01Setup(rc *RunCtx) simrt.Config {
	r := rc.R
	cfg, sname := drawSimConfig(r, 30000)
	c := &c01cfg{}
	c.kind = TransportKind(r.Choose(8))
	c.callers = 1 + r.Choose(widen(8, 14))
	for i := 0; i < c.callers; i++ {
		c.perCall = append(c.perCall, 1+r.Choose(widen(6, 10)))
	}
	c.idMode = r.Choose(4)
	c.pCancel = []int{0, 0, 10, 30}[r.Choose(4)]
	c.pDelay = []int{0, 50, 90}[r.Choose(3)]
	if c.kind.pipelined() {
		c.pDup = []int{0, 10, 40}[r.Choose(3)]
		c.pStray = []int{0, 10, 40}[r.Choose(3)]
		c.maxCQ = []int{0, 0, 2, 4}[r.Choose(4)]
	} else if r.Choose(4) == 0 {
		c.surplus = true
		c.callers = 1
		c.perCall = c.perCall[:1]
		c.pCancel = 0
	}
	if !c.kind.stream() {
		c.pDrop = []int{0, 0, 20}[r.Choose(3)]
	}
	if c.kind.stream() && !c.surplus {
		// the peer closes or resets right after a reply: the reply and the close
		// notification reach the waiting caller together
		c.pClose = []int{0, 0, 15, 40}[r.Choose(4)]
	}
	if c.kind == TkUDP {
		c.pTC = []int{0, 30, 60}[r.Choose(3)]
		c.pTCPFail = []int{0, 50}[r.Choose(2)]
	}
	if c.kind == TkPipelineStream || c.kind == TkPipelineDgram {
		c.wrap = r.Choose(3) == 0
		if c.wrap {
			// Scope of the property: a late reply is assumed to arrive before
			// 65536 further queries reuse its wire ID. The rewind emulates those
			// 65536 queries, so this mode generates no reply that could outlive
			// its query (no duplicates, cancellations, loss or resend-inducing delays).
			c.pDelay = 90
			c.pDrop, c.pDup, c.pCancel, c.pStray, c.pClose = 0, 0, 0, 0, 0
		}
	}
	if r.Choose(30) == 0 {
		c.exhaust = true
		cfg.MaxSteps = 400000
		c.kind = []TransportKind{TkPipelineStream, TkPipelineDgram}[r.Choose(2)]
		c.wrap, c.surplus = false, false
	}
	rc.Cfg["id_exhaustion"] = c.exhaust
	rc.Net.ChunkMode = r.Choose(3)
	rc.Cfg["strategy"] = sname
	rc.Cfg["kind"] = c.kind.String()
	rc.Cfg["callers"] = c.callers
	rc.Cfg["per_call"] = c.perCall
	rc.Cfg["id_mode"] = []string{"zero", "ffff", "collide", "random"}[c.idMode]
	rc.Cfg["p_cancel"] = c.pCancel
	rc.Cfg["p_dup"] = c.pDup
	rc.Cfg["p_stray"] = c.pStray
	rc.Cfg["p_delay"] = c.pDelay
	rc.Cfg["p_drop"] = c.pDrop
	rc.Cfg["p_tc"] = c.pTC
	rc.Cfg["p_close"] = c.pClose
	rc.Cfg["wrap"] = c.wrap
	rc.Cfg["surplus"] = c.surplus
	rc.Cfg["max_cq"] = c.maxCQ
	rc.Cfg["chunk"] = rc.Net.ChunkMode
	rc.priv = c
	return cfg
}

// c01Exhaust: query X holds wire ID 0 unanswered; 100 more unanswered queries
// hold IDs 65436..65535; the allocator is put back on 65436 (the state after
// ~65k further queries), so the next query finds all of its 100 candidate IDs
// busy and is refused. The query after that starts its search at ID 0. When the
// server finally answers everything (correct IDs, its own order), every
// successful call must still hold the reply to its own query.
func c01Exhaust(rc *RunCtx, c *c01cfg, w *W1) {
	stream := c.kind == TkPipelineStream
	network := "udp"
	if stream {
		network = "tcp"
	}
	hold := make(chan struct{})
	plan := func(sc *simnet.Conn, nth int, call *Call, wid uint16) Action {
		a := Action{HoldUntil: hold}
		if simrt.Choose(2) == 0 {
			a.Delay = time.Duration(simrt.Choose(5)) * time.Millisecond // replies leave in PRNG order
		}
		return a
	}
	rc.Net.Handle(network, srvAddr, w.Serve(ServerOpts{Plan: plan}))
	var dcs []*transport.TraditionalDnsConn
	u := transport.NewPipelineTransport(transport.PipelineOpts{
		DialContext: func(ctx context.Context) (transport.DnsConn, error) {
			nc, err := rc.Net.Dial(ctx, network, srvAddr)
			if err != nil {
				return nil, err
			}
			dc := transport.NewDnsConn(transport.TraditionalDnsConnOpts{WithLengthHeader: stream, MaxConcurrentQuery: 200}, nc)
			dc.VerifSetNextQid(0)
			dcs = append(dcs, dc)
			return dc, nil
		},
	})
	done := make(chan struct{}, 256)
	n := 0
	start := func(caller int, d time.Duration) *Call {
		call := w.NewCall(caller, 0, uint16(simrt.Choose(65536)), 1)
		ctx, cancel := context.WithTimeout(context.Background(), d)
		call.Ctx, call.Cancel = ctx, cancel
		n++
		simrt.GoNamed(fmt.Sprintf("x%d", caller), func() {
			w.Exchange(u, call)
			cancel()
			w.CheckProvenance(call)
			simrt.Send(0, done, struct{}{})
		})
		return call
	}
	start(0, 30*time.Second) // X: wire ID 0
	simrt.Sleep(0, time.Millisecond)
	if len(dcs) != 1 {
		rc.Inconcl = "no connection"
		close(hold)
		return
	}
	dcs[0].VerifSetNextQid(65436)
	for i := 0; i < 100; i++ {
		start(100+i, 30*time.Second)
	}
	simrt.Sleep(0, 5*time.Millisecond)
	if q, _ := dcs[0].VerifQueueLen(); q != 101 || len(dcs) != 1 {
		rc.Inconcl = fmt.Sprintf("%d queries queued on %d connections", q, len(dcs))
	}
	dcs[0].VerifSetNextQid(65436)
	simrt.Fault("wire_id_rewind")
	// refused for want of a wire ID (directly on the connection: a transport
	// would retry elsewhere)
	if rx, _ := dcs[0].ReserveNewQuery(); rx != nil {
		p := w.NewCall(900, 0, 9, 1)
		ctx, cancel := context.WithTimeout(context.Background(), 50*time.Millisecond)
		if _, err := rx.ExchangeReserved(ctx, p.Query); err != nil && ctx.Err() == nil {
			simrt.Probe("c01.refused_for_want_of_a_wire_id")
		}
		cancel()
	}
	start(1000, 30*time.Second) // Y: its search for a wire ID starts at 0
	simrt.Sleep(0, time.Millisecond)
	close(hold)
	for i := 0; i < n; i++ {
		simrt.Recv(0, done)
	}
	u.Close()
}

func c01Main(rc *RunCtx) {
	c := rc.priv.(*c01cfg)
	w := newW1(rc)
	c.w = w
	rc.StrictBufs = true
	if c.exhaust {
		w.CheckDupWid = true
		c01Exhaust(rc, c, w)
		return
	}
	w.CheckFrames = c.kind.stream() || c.kind == TkUDP // what the server receives must be some caller's intact query
	plan := func(sc *simnet.Conn, nth int, call *Call, wid uint16) Action {
		a := Action{}
		if simrt.Choose(100) < c.pDelay {
			a.Delay = time.Duration(simrt.Choose(8)) * time.Millisecond
			if simrt.Choose(8) == 0 && !c.wrap {
				a.Delay = time.Duration(900+simrt.Choose(300)) * time.Millisecond
			}
		}
		if simrt.Choose(100) < c.pDup {
			a.Dup = 1 + simrt.Choose(2)
			a.DupDelay = time.Duration(simrt.Choose(3)) * time.Millisecond
		}
		if simrt.Choose(100) < c.pStray {
			a.Stray = true
		}
		if simrt.Choose(100) < c.pDrop {
			a.NoReply = true
		}
		if sc.Stream && simrt.Choose(100) < c.pClose {
			if simrt.Choose(2) == 0 {
				a.CloseAfter = true
			} else {
				a.ResetAfter = true
			}
		}
		if c.kind == TkDoQ && simrt.Choose(3) == 0 {
			// DoQ: one stream per query, the ID on the wire is 0 by convention; a
			// server that answers with another ID must not change what the caller gets
			a.ForceID = uint16(1 + simrt.Choose(65535))
			simrt.Fault("doq_reply_with_nonzero_id")
		}
		if c.kind == TkUDP && !sc.Stream && simrt.Choose(100) < c.pTC {
			a.TC = true // udp:// falls back to TCP, whose server answers or dies (below)
			simrt.Fault("udp_reply_truncated")
		}
		if c.kind == TkUDP && sc.Stream {
			// the TCP fallback connection is non-pipelined: one reply per query (scope)
			a.Stray, a.Dup = false, 0
		}
		if c.kind == TkUDP && sc.Stream && simrt.Choose(100) < c.pTCPFail {
			a.CloseBefore = true
			simrt.Fault("tcp_fallback_dies")
		}
		return a
	}
	serve := w.Serve(ServerOpts{Plan: plan})
	rc.Net.Handle("udp", srvAddr, serve)
	rc.Net.Handle("tcp", srvAddr, serve)
	rc.Net.Handle("udp", dohAddr, serve)
	rc.Net.Handle("tcp", doqAddr, serve)

	var u upstream.Upstream
	var dcs []*transport.TraditionalDnsConn
	w.CheckDupWid = true
	if c.wrap {
		// direct pipeline transport whose connections start near the ID wrap
		stream := c.kind == TkPipelineStream
		network := "udp"
		if stream {
			network = "tcp"
		}
		start := uint16(0xFFFF - simrt.Choose(4))
		to := transport.TraditionalDnsConnOpts{WithLengthHeader: stream, MaxConcurrentQuery: 0}
		u = transport.NewPipelineTransport(transport.PipelineOpts{
			DialContext: func(ctx context.Context) (transport.DnsConn, error) {
				nc, err := rc.Net.Dial(ctx, network, srvAddr)
				if err != nil {
					return nil, err
				}
				dc := transport.NewDnsConn(to, nc)
				dc.VerifSetNextQid(start)
				dcs = append(dcs, dc)
				return dc, nil
			},
		})
		// Emulate the state after 65536 further queries: rewind the allocator
		// onto IDs that may still be outstanding, so the "skip IDs still waiting"
		// branch has to run.
		nrew := 1 + simrt.Choose(3)
		simrt.GoNamed("rewind", func() {
			for i := 0; i < nrew; i++ {
				simrt.Sleep(0, time.Duration(1+simrt.Choose(4))*time.Millisecond)
				for _, dc := range dcs {
					q, _ := dc.VerifQueueLen()
					if q > 0 {
						simrt.Probe("c01.rewind_with_outstanding")
					}
					dc.VerifSetNextQid(start)
				}
				simrt.Fault("wire_id_rewind")
			}
		}).Daemon = true
	} else {
		u = w.NewTransport(c.kind, TransportOpts{MaxCQ: c.maxCQ, MaxLazyQ: c.maxCQ})
	}
	shared := uint16(simrt.Choose(65536))
	done := make(chan struct{}, c.callers)
	for ci := 0; ci < c.callers; ci++ {
		ci := ci
		simrt.GoNamed(fmt.Sprintf("caller%d", ci), func() {
			for s := 0; s < c.perCall[ci]; s++ {
				var id uint16
				switch c.idMode {
				case 0:
					id = 0
				case 1:
					id = 0xFFFF
				case 2:
					id = shared
				default:
					id = uint16(simrt.Choose(65536))
				}
				call := w.NewCall(ci, s, id, 1)
				ctx, cancel := context.WithTimeout(context.Background(), 8*time.Second)
				call.Ctx, call.Cancel = ctx, cancel
				if simrt.Choose(100) < c.pCancel {
					d := time.Duration(simrt.Choose(5)) * time.Millisecond
					simrt.GoNamed(fmt.Sprintf("cancel%d.%d", ci, s), func() {
						simrt.Sleep(0, d)
						simrt.Fault("ctx_cancel")
						cancel()
					}).Daemon = true
				}
				w.Exchange(u, call)
				cancel()
				w.CheckProvenance(call)
				if rc.Viol != nil {
					break
				}
				if c.surplus && call.Err == nil && len(call.Txs) > 0 && simrt.Choose(2) == 0 {
					// Non-pipelined, single caller: the connection is idle now. The
					// server sends a surplus reply; the client must close the
					// connection instead of handing the reply to a later query.
					cc := rc.Net.Conns()[call.Txs[len(call.Txs)-1].Conn]
					if !cc.IsClosed() && !cc.Peer().IsClosed() {
						simrt.Fault("srv_surplus_reply_while_idle")
						info := ReplyInfo{Call: call.Idx, Conn: cc.ID, WireID: call.Txs[len(call.Txs)-1].WireID, ForTx: len(call.Txs) - 1, Kind: "surplus"}
						b, ri := w.MakeReply(call.Query, info, false, 0)
						cc.Peer().WriteMsg(b, ri)
						simrt.Sleep(0, time.Millisecond)
						if !cc.IsClosed() {
							rc.Fail("surplus_reply_conn_not_closed", "conn %d: a surplus reply arrived while the non-pipelined connection was idle, but the client kept the connection open", cc.ID)
							break
						}
					}
				}
			}
			simrt.Send(0, done, struct{}{})
		})
	}
	for i := 0; i < c.callers; i++ {
		simrt.Recv(0, done)
	}
	u.Close()
}

func c01Post(rc *RunCtx, res simrt.Result) {
	c := rc.priv.(*c01cfg)
	if c.w == nil {
		return
	}
	ok := 0
	for _, x := range c.w.Calls {
		if x.Done && x.Err == nil {
			ok++
		}
	}
	if ok == 0 {
		rc.Note("no successful call in this run")
	}
	if res.End != simrt.EndClean && rc.Viol == nil {
		rc.Inconcl = "run did not end cleanly: " + res.End.String()
	}
}
