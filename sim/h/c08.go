package h

import (
	"bytes"
	"context"
	"fmt"
	"time"

	"verif/sim/simnet"
	"verif/sim/simrt"
)

// C08 — failures of reused connections are retried, fresh ones reported.
//
// Server scripts kill connections: close right after a reply, close after
// idling, vanish silently (reset on the next write), close with k queries in
// flight. Dials always succeed, contexts are unbounded and the transport is not
// closed, so a fresh connection always works.
//
// Oracle: a call may return an error only if its last attempt was made on a
// connection opened for it, or it was retried (queries written on >= 2
// connections, all failed). No query is written on more than 4 connections.

func init() {
	Scenarios["C08"] = &Scenario{Setup: c08Setup, Main: c08Main, Post: c08Post}
}

type attempt struct {
	Conn int
	Step int
	At   time.Duration
}

type c08cfg struct {
	kind     TransportKind
	callers  int
	perCall  []int
	burst    int
	pCloseAfter, pSilentKill, pCloseInFlight int
	idleKill time.Duration
	gapMax   int
	massKill bool
	lazyQ    int
	dialMs   int // dials succeed, but may take this long (queries queue on the dialing connection)
	pDialHang int // percent of dials that hang until their context ends (black-holed SYN): the one failure of a fresh attempt
	dialFailed map[int]bool // call -> a dial started for it failed
	hangs    [][2]time.Duration // [start, end] of every dial that hung
	w        *W1
	attempts map[int][]attempt // call -> writes
	opener   map[int]int       // conn -> call index that opened it (-1 unknown)
	callerTask map[int]int     // task id -> caller index
	curCall  map[int]*Call     // caller index -> call in progress
	closeEv  []closeEvent
}

type closeEvent struct {
	Conn int
	Step int
}

func c08Setup(rc *RunCtx) simrt.Config {
	r := rc.R
	cfg, sname := drawSimConfig(r, 60000)
	c := &c08cfg{attempts: map[int][]attempt{}, opener: map[int]int{}, callerTask: map[int]int{}, curCall: map[int]*Call{}}
	c.kind = []TransportKind{TkTCP, TkTCPPipeline, TkPipelineStream, TkReuse}[r.Choose(4)]
	c.callers = 1 + r.Choose(4)
	for i := 0; i < c.callers; i++ {
		c.perCall = append(c.perCall, 1+r.Choose(widen(8, 30)))
	}
	c.burst = []int{0, 0, 3, 6, 8}[r.Choose(5)]
	c.massKill = c.burst >= 6 && r.Choose(2) == 0
	pick := func(vals ...int) int { return vals[r.Choose(len(vals))] }
	c.pCloseAfter = pick(0, 20, 60, 100)
	c.pSilentKill = pick(0, 20, 60)
	c.pCloseInFlight = pick(0, 0, 20)
	c.idleKill = []time.Duration{0, 0, 500 * time.Millisecond, 2 * time.Second}[r.Choose(4)]
	c.gapMax = pick(0, 5, 3000, 9000) // up to 9 s: longer than a reply timeout, shorter than the idle timeout
	if c.kind == TkPipelineStream {
		// queue limit of a connection that is still dialing (never above the
		// established connection's own limit)
		c.lazyQ = pick(0, 0, 1, 2)
	}
	rc.Cfg["lazy_queue"] = c.lazyQ
	c.dialMs = pick(0, 0, 1, 20)
	rc.Cfg["dial_ms"] = c.dialMs
	c.pDialHang = pick(0, 0, 0, 10)
	c.dialFailed = map[int]bool{}
	rc.Cfg["p_dial_hang"] = c.pDialHang
	rc.Net.ChunkMode = r.Choose(3)
	rc.Cfg["strategy"] = sname
	rc.Cfg["kind"] = c.kind.String()
	rc.Cfg["callers"] = c.callers
	rc.Cfg["per_call"] = c.perCall
	rc.Cfg["burst"] = c.burst
	rc.Cfg["mass_kill"] = c.massKill
	rc.Cfg["p_close_after"] = c.pCloseAfter
	rc.Cfg["p_silent_kill"] = c.pSilentKill
	rc.Cfg["p_close_in_flight"] = c.pCloseInFlight
	rc.Cfg["idle_kill_ms"] = int(c.idleKill / time.Millisecond)
	rc.Cfg["gap_max_ms"] = c.gapMax
	rc.priv = c
	return cfg
}

func c08Main(rc *RunCtx) {
	c := rc.priv.(*c08cfg)
	w := newW1(rc)
	c.w = w
	lastQuery := map[int]int{} // conn -> count of queries seen (for idle kill)
	plan := func(sc *simnet.Conn, nth int, call *Call, wid uint16) Action {
		a := Action{}
		lastQuery[sc.ID] = nth
		x := simrt.Choose(100)
		if x < c.pCloseInFlight {
			a.CloseBefore = true
			simrt.Fault("srv_close_in_flight")
			return a
		}
		if simrt.Choose(100) < c.pCloseAfter {
			a.CloseAfter = true
		} else if simrt.Choose(100) < c.pSilentKill {
			a.SilentKillAfter = true
		} else if c.idleKill > 0 {
			id, n := sc.ID, nth
			simrt.GoNamed(fmt.Sprintf("idlekill[%d#%d]", id, n), func() {
				simrt.Sleep(0, c.idleKill)
				if lastQuery[id] == n && !sc.IsClosed() {
					simrt.Fault("srv_close_after_idle")
					if simrt.Choose(2) == 0 {
						sc.Close()
					} else {
						sc.KillSilently()
					}
				}
			}).Daemon = true
		}
		if simrt.Choose(4) == 0 {
			a.Delay = time.Duration(1+simrt.Choose(20)) * time.Millisecond
		}
		return a
	}
	ep := rc.Net.Handle("tcp", srvAddr, w.Serve(ServerOpts{Plan: plan}))
	if c.dialMs > 0 || c.pDialHang > 0 {
		ep.DialFault = func(ctx context.Context, nth int) error {
			if simrt.Choose(100) < c.pDialHang {
				// the dial never completes; it ends with its own (dial timeout) context
				simrt.Fault("dial_hangs_until_its_timeout")
				for t := simrt.CurTaskID(); t >= 0; t = simrt.TaskParent(t) {
					if ci, ok := c.callerTask[t]; ok {
						if x := c.curCall[ci]; x != nil {
							c.dialFailed[x.Idx] = true
						}
						break
					}
				}
				t0 := simrt.S.Elapsed()
				simrt.Recv(0, ctx.Done())
				c.hangs = append(c.hangs, [2]time.Duration{t0, simrt.S.Elapsed()})
				return ctx.Err()
			}
			if c.dialMs > 0 {
				simrt.Sleep(0, time.Duration(1+simrt.Choose(c.dialMs))*time.Millisecond)
				simrt.Fault("slow_dial")
			}
			return nil
		}
	}
	rc.Net.OnDial = func(cc *simnet.Conn) {
		// who opened this connection? walk the task ancestry up to a caller task
		c.opener[cc.ID] = -1
		for t := cc.DialTask; t >= 0; t = simrt.TaskParent(t) {
			if ci, ok := c.callerTask[t]; ok {
				if x := c.curCall[ci]; x != nil {
					c.opener[cc.ID] = x.Idx
				}
				break
			}
		}
		cc.WriteHook = func(cn *simnet.Conn, b []byte) {
			// Every write of these transports is one whole length-prefixed query.
			// An attempt that transmits anything else is not an attempt to send
			// the query (and the server cannot answer it).
			var x *Call
			if len(b) >= 14 && int(b[0])<<8|int(b[1]) == len(b)-2 {
				if _, name, ok := parseQuery(b[2:]); ok {
					x = w.byName[name]
				}
			}
			if x == nil || !bytes.Equal(b[4:], x.Query[2:]) {
				hd := b
				if len(hd) > 24 {
					hd = hd[:24]
				}
				rc.Fail("attempt_wrote_wrong_bytes", "connection %d: the client wrote %d bytes (% x ...) that are not the intact length-prefixed query of any call", cn.ID, len(b), hd)
				return
			}
			c.attempts[x.Idx] = append(c.attempts[x.Idx], attempt{Conn: cn.ID, Step: simrt.S.Steps(), At: simrt.S.Elapsed()})
		}
	}
	rc.Net.OnEvent = func(e simnet.Event) {
		if e.Kind == "write_timeout" && e.Side == "c" {
			// The client's own (stale) write deadline failed a write at once on a
			// connection the server has not touched: the attempt failed although
			// the connection did not. Such attempts eat the retry budget (four of
			// them fail a query without a fresh connection ever being tried).
			cc := rc.Net.Conns()[e.Conn]
			if !cc.Peer().IsClosed() {
				rc.Fail("attempt_failed_on_healthy_connection", "connection %d: a query write failed with an already expired write deadline at t=%v although the server had not closed or killed the connection", e.Conn, e.At)
			}
			return
		}
		if e.Kind == "close" || e.Kind == "rst" || e.Kind == "silent_kill" {
			c.closeEv = append(c.closeEv, closeEvent{e.Conn, e.Step})
		}
	}
	u := w.NewTransport(c.kind, TransportOpts{MaxCQ: 0, MaxLazyQ: c.lazyQ})
	done := make(chan struct{}, 64)
	runCall := func(ci, s int) {
		call := w.NewCall(ci, s, uint16(simrt.Choose(65536)), 1)
		c.curCall[ci] = call
		w.Exchange(u, call)
		c.curCall[ci] = nil
		w.CheckProvenance(call)
		c08CheckCall(rc, c, call)
	}
	n := 0
	// optional burst: many concurrent calls create several connections at once
	for b := 0; b < c.burst; b++ {
		ci := 100 + b
		t := simrt.GoNamed(fmt.Sprintf("burst%d", b), func() {
			runCall(ci, 0)
			simrt.Send(0, done, struct{}{})
		})
		c.callerTask[t.ID] = ci
		n++
	}
	for i := 0; i < n; i++ {
		simrt.Recv(0, done)
	}
	if c.burst > 0 && c.gapMax > 0 {
		// (the half millisecond keeps call starts off the instants at which idle
		// timeouts expire: every other duration here is whole milliseconds)
		simrt.Sleep(0, time.Duration(simrt.Choose(c.gapMax+1))*time.Millisecond+500*time.Microsecond)
	}
	if c.burst > 0 && c.massKill {
		// every connection the burst left behind dies at once (server restart, NAT
		// flush): the next queries meet a pool full of dead connections
		for _, cc := range rc.Net.Conns() {
			if cc.IsClosed() || cc.Peer().IsClosed() {
				continue
			}
			if simrt.Choose(2) == 0 {
				cc.Peer().KillSilently()
			} else {
				cc.Peer().Close()
			}
		}
		simrt.Fault("srv_mass_kill_of_idle_conns")
	}
	for ci := 0; ci < c.callers; ci++ {
		ci := ci
		t := simrt.GoNamed(fmt.Sprintf("caller%d", ci), func() {
			for s := 0; s < c.perCall[ci] && rc.Viol == nil; s++ {
				runCall(ci, s)
				if c.gapMax > 0 {
					simrt.Sleep(0, time.Duration(simrt.Choose(c.gapMax+1))*time.Millisecond+500*time.Microsecond)
				}
			}
			simrt.Send(0, done, struct{}{})
		})
		c.callerTask[t.ID] = ci
	}
	for i := 0; i < c.callers; i++ {
		simrt.Recv(0, done)
	}
	u.Close()
}

func c08CheckCall(rc *RunCtx, c *c08cfg, x *Call) {
	atts := c.attempts[x.Idx]
	conns := map[int]bool{}
	var order []int
	for _, a := range atts {
		if !conns[a.Conn] {
			conns[a.Conn] = true
			order = append(order, a.Conn)
		}
	}
	if len(order) > 4 {
		rc.Fail("query_sent_on_too_many_connections", "call %d (%s) was written on %d connections %v; the bound is 4", x.Idx, x.QName, len(order), order)
		return
	}
	if len(order) >= 2 {
		simrt.Probe("c08.retried")
	}
	if x.Err == nil {
		if len(order) >= 2 {
			simrt.Probe("c08.retry_succeeded")
		}
		return
	}
	simrt.Probe("c08.call_failed")
	// licence (ii): retried at least once and every attempt failed
	if len(order) >= 2 {
		simrt.Probe("c08.failed_after_retries")
		return
	}
	// licence (i): a connection was opened for this call. Both transports stop
	// retrying after an attempt on a connection of their own, so that attempt was
	// the last one (it may have failed before anything was written).
	if c.dialFailed[x.Idx] {
		// a connection was being opened for this call and the dial failed: the
		// fresh attempt failed, the failure is reported
		simrt.Probe("c08.failed_on_own_failed_dial")
		return
	}
	for _, h := range c.hangs {
		if h[0] <= x.EndAt && h[1] >= x.StartAt {
			// A hung dial overlapped this call. Attempts that end in a failed dial
			// write nothing, so the attempt accounting below cannot see them (the call
			// may have been queued on a connection another call was dialing, more
			// than once): the run says nothing about this call.
			simrt.Probe("c08.inconclusive_hung_dial_overlaps")
			return
		}
	}
	own, ownUnused := false, -1
	for id, op := range c.opener {
		if op != x.Idx {
			continue
		}
		own = true
		cc := rc.Net.Conns()[id]
		if !conns[id] && !cc.IsClosed() && !cc.Peer().IsClosed() {
			ownUnused = id
		}
	}
	if own && ownUnused >= 0 && len(order) <= 1 && !conns[ownUnused] {
		// The connection opened for this call is alive and the query was never
		// written on it: no attempt on it has failed.
		rc.Fail("failed_without_attempt_on_own_connection", "call %d (%s) failed with %q; connection %d was opened for it, is still healthy, and the query was never written on it (written on %v)",
			x.Idx, x.QName, x.Err, ownUnused, order)
		return
	}
	if own {
		simrt.Probe("c08.failed_on_own_fresh_conn")
		return
	}
	// Attempts that ended before anything was written (the connection was closed
	// between reservation and send) are invisible on the wire. They need another
	// connection to have been closed during the call; if that happened, the run
	// says nothing about this call.
	for _, ce := range c.closeEv {
		if ce.Step >= x.StartStep && (len(order) == 0 || ce.Conn != order[0]) {
			simrt.Probe("c08.inconclusive_other_conn_closed")
			return
		}
	}
	if len(order) == 0 {
		rc.Fail("error_without_any_attempt", "call %d (%s) failed with %q although nothing was written, no connection was opened for it and no connection died meanwhile", x.Idx, x.QName, x.Err)
		return
	}
	rc.Fail("reused_conn_failure_not_retried", "call %d (%s) failed with %q after a single attempt on connection %d, which was opened for call %d; a fresh connection would have worked",
		x.Idx, x.QName, x.Err, order[0], c.opener[order[0]])
}

func c08Post(rc *RunCtx, res simrt.Result) {
	c := rc.priv.(*c08cfg)
	if c.w == nil {
		return
	}
	for _, x := range c.w.Calls {
		if x.Started && !x.Done {
			if rc.Viol == nil && (res.End == simrt.EndStuck || res.End == simrt.EndDeadlock) {
				// The server answers or kills connections, every dial succeeds, nothing
				// is silent forever: a call that never returns was neither retried to
				// success nor reported as failed.
				rc.Fail("call_never_returned", "call %d (%s) started at t=%v never returned although fresh connections work (run end: %s %s)", x.Idx, x.QName, x.StartAt, res.End, leakSummary(res))
				return
			}
			rc.Inconcl = "call did not return"
		}
	}
	if res.End != simrt.EndClean && rc.Viol == nil {
		rc.Inconcl = "run did not end cleanly: " + res.End.String()
	}
}
