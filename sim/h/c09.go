package h

import (
	"context"
	"fmt"
	"time"

	"github.com/IrineSistiana/mosdns/v5/pkg/upstream"
	"github.com/IrineSistiana/mosdns/v5/pkg/upstream/transport"
	"verif/sim/simnet"
	"verif/sim/simrt"
)

// C09 — per-connection concurrency limits hold and capacity never leaks.
//
// Sub-scenarios (drawn per run):
//   history : random history (completed, cancelled, failed queries) on a
//             transport with limit L, invariant "unanswered live queries per
//             connection <= L" at every received query, then a quiescent
//             capacity probe: with replies held, M*L new callers fit on the M
//             live connections without a new dial; one more caller dials.
//   dialing : the dial is held, Lq callers queue on the dialing connection
//             (no second dial), the dial completes with limit L = Lq, none of
//             them may be refused.
//   direct  : ReserveNewQuery / ExchangeReserved / WithdrawReserved driven
//             directly on one TraditionalDnsConn from several tasks; afterwards a
//             used-then-quiescent connection admits exactly L reservations and
//             no counter is negative.

func init() {
	Scenarios["C09"] = &Scenario{Setup: c09Setup, Main: c09Main, Post: c09Post}
}

type c09cfg struct {
	mode    int // 0 history, 1 dialing, 2 direct, 3 id exhaustion
	kind    TransportKind
	L       int
	callers int
	perCall []int
	pCancel int
	pNoReply int
	pDelay  int
	Lq      int // queue limit while dialing (>= L)
	pDialFail int // history mode: percent of dials that are refused
	w       *W1
}

func c09Setup(rc *RunCtx) simrt.Config {
	r := rc.R
	cfg, sname := drawSimConfig(r, 60000)
	c := &c09cfg{}
	c.mode = r.Weighted(9, 6, 6, 1)
	c.kind = []TransportKind{TkPipelineStream, TkPipelineDgram, TkReuse, TkTCP}[r.Weighted(3, 3, 1, 1)]
	if c.mode != 0 && !c.kind.pipelined() {
		c.kind = TkPipelineStream
	}
	c.L = []int{1, 2, 3, 4, 6}[r.Choose(5)]
	if !c.kind.pipelined() {
		c.L = 1
	}
	defer func() {
		if !c.kind.pipelined() {
			// A non-pipelined connection whose query was abandoned unanswered stays
			// busy until the reply or its timeout: that is not lost capacity. The
			// server therefore answers everything (possibly late) in this family.
			c.pNoReply = 0
			rc.Cfg["p_noreply"] = 0
		}
	}()
	c.Lq = c.L
	if c.kind.pipelined() && r.Choose(3) == 0 {
		c.Lq = []int{2 * c.L, c.L + 3}[r.Choose(2)]
	}
	c.callers = 1 + r.Choose(widen(6, 12))
	for i := 0; i < c.callers; i++ {
		c.perCall = append(c.perCall, 1+r.Choose(widen(4, 8)))
	}
	c.pCancel = []int{0, 20, 50}[r.Choose(3)]
	c.pNoReply = []int{0, 20}[r.Choose(2)]
	c.pDelay = []int{0, 50, 100}[r.Choose(3)]
	rc.Cfg["strategy"] = sname
	rc.Cfg["mode"] = []string{"history", "dialing", "direct", "id_exhaustion"}[c.mode]
	rc.Cfg["kind"] = c.kind.String()
	rc.Cfg["L"] = c.L
	rc.Cfg["Lq"] = c.Lq
	rc.Cfg["callers"] = c.callers
	rc.Cfg["p_cancel"] = c.pCancel
	rc.Cfg["p_noreply"] = c.pNoReply
	rc.Cfg["p_delay"] = c.pDelay
	if c.mode == 0 && r.Choose(4) == 0 {
		c.pDialFail = []int{20, 50}[r.Choose(2)]
	}
	rc.Cfg["p_dial_fail"] = c.pDialFail
	rc.priv = c
	return cfg
}

// liveOutstanding counts queries on conn that are unanswered while their
// caller is still waiting with a live context.
func (w *W1) liveOutstanding(conn int) (n int, ids []int) {
	for _, ci := range w.Outstanding[conn] {
		x := w.Calls[ci]
		if x.Done || (x.Ctx != nil && x.Ctx.Err() != nil) {
			continue
		}
		n++
		ids = append(ids, ci)
	}
	return
}

func c09Main(rc *RunCtx) {
	c := rc.priv.(*c09cfg)
	w := newW1(rc)
	c.w = w
	switch c.mode {
	case 0:
		c09History(rc, c, w)
	case 1:
		c09Dialing(rc, c, w)
	case 2:
		c09Direct(rc, c, w)
	default:
		c09Exhaust(rc, c, w)
	}
}

// c09Exhaust: one connection with a limit above 100 carries >= 100 unanswered
// queries on consecutive wire IDs; the allocator is then put back at the start
// of that block (the state after 65436 further queries), so that the next
// queries find every candidate ID busy and are refused after having been
// reserved. After everything was answered the connection must admit as many
// reservations as a fresh one.
func c09Exhaust(rc *RunCtx, c *c09cfg, w *W1) {
	stream := c.kind.stream()
	network := "udp"
	if stream {
		network = "tcp"
	}
	hold := make(chan struct{})
	plan := func(sc *simnet.Conn, nth int, call *Call, wid uint16) Action {
		return Action{HoldUntil: hold}
	}
	rc.Net.Handle(network, srvAddr, w.Serve(ServerOpts{Plan: plan}))
	nc, err := rc.Net.Dial(context.Background(), network, srvAddr)
	if err != nil {
		panic(err)
	}
	L := 101 + simrt.Choose(30)
	rc.Cfg["L"] = L
	dc := transport.NewDnsConn(transport.TraditionalDnsConnOpts{WithLengthHeader: stream, IdleTimeout: time.Hour, MaxConcurrentQuery: L}, nc)
	start := []uint16{0, 0xFFC0, uint16(simrt.Choose(65536))}[simrt.Choose(3)]
	dc.VerifSetNextQid(start)
	fresh := countReservations(dc)
	if fresh != L {
		rc.Fail("fresh_capacity_wrong", "a fresh connection with limit %d admitted %d reservations", L, fresh)
		return
	}
	n := 100 + simrt.Choose(L-100)
	done := make(chan struct{}, 256)
	for i := 0; i < n; i++ {
		i := i
		call := w.NewCall(i, 0, uint16(i), 1)
		rx, _ := dc.ReserveNewQuery()
		if rx == nil {
			rc.Fail("query_refused_below_limit", "query %d of %d refused on a healthy connection with limit %d", i, n, L)
			return
		}
		simrt.GoNamed(fmt.Sprintf("held%d", i), func() {
			ctx, cancel := context.WithTimeout(context.Background(), 30*time.Second)
			call.Ctx, call.Started = ctx, true
			r, err := rx.ExchangeReserved(ctx, call.Query)
			cancel()
			call.Done, call.Err = true, err
			if err == nil {
				call.Resp = append([]byte(nil), (*r)...)
				w.CheckProvenance(call)
			}
			simrt.Send(0, done, struct{}{})
		})
	}
	simrt.Sleep(0, 20*time.Millisecond)
	if q, _ := dc.VerifQueueLen(); q != n {
		rc.Inconcl = fmt.Sprintf("only %d of %d queries are queued", q, n)
	}
	k := 1 + simrt.Choose(4)
	for j := 0; j < k && rc.Viol == nil; j++ {
		dc.VerifSetNextQid(start)
		simrt.Fault("wire_id_rewind")
		rx, _ := dc.ReserveNewQuery()
		if rx == nil {
			continue
		}
		call := w.NewCall(200+j, 0, uint16(200+j), 1)
		ctx, cancel := context.WithTimeout(context.Background(), 5*time.Millisecond)
		_, err := rx.ExchangeReserved(ctx, call.Query)
		cancel()
		if err != nil && ctx.Err() == nil {
			simrt.Probe("c09.refused_for_want_of_a_wire_id")
		}
	}
	close(hold)
	for i := 0; i < n; i++ {
		simrt.Recv(0, done)
	}
	simrt.Sleep(0, 100*time.Millisecond)
	if rc.Viol == nil && !dc.IsClosed() {
		q, rsv := dc.VerifQueueLen()
		if q != 0 || rsv != 0 {
			rc.Fail("counter_not_zero_at_quiescence", "after every query was answered or refused the connection reports queued=%d reserved=%d", q, rsv)
		} else if got := countReservations(dc); got != fresh {
			rc.Fail("capacity_lost", "a used-then-quiescent connection admits %d reservations, a fresh one %d", got, fresh)
		}
		simrt.Probe("c09.exhaust_probe")
	}
	dc.Close()
}

func c09History(rc *RunCtx, c *c09cfg, w *W1) {
	var hold chan struct{}
	plan := func(sc *simnet.Conn, nth int, call *Call, wid uint16) Action {
		// invariant: unanswered live queries on this connection <= L
		if n, ids := w.liveOutstanding(sc.ID); n > c.L {
			rc.Fail("limit_exceeded", "connection %d carries %d unanswered live queries %v, limit is %d", sc.ID, n, ids, c.L)
		}
		a := Action{}
		if hold != nil {
			a.HoldUntil = hold
			return a
		}
		if simrt.Choose(100) < c.pNoReply {
			a.NoReply = true
		}
		if simrt.Choose(100) < c.pDelay {
			a.Delay = time.Duration(1+simrt.Choose(30)) * time.Millisecond
		}
		return a
	}
	serve := w.Serve(ServerOpts{Plan: plan})
	dialFault := func(ctx context.Context, nth int) error {
		if simrt.Choose(100) < c.pDialFail {
			simrt.Fault("dial_refused")
			return simnet.ErrRefused
		}
		return nil
	}
	rc.Net.Handle("udp", srvAddr, serve).DialFault = dialFault
	rc.Net.Handle("tcp", srvAddr, serve).DialFault = dialFault
	u := w.NewTransport(c.kind, TransportOpts{MaxCQ: c.L, MaxLazyQ: c.Lq, IdleTimeout: time.Hour})
	done := make(chan struct{}, 64)
	for ci := 0; ci < c.callers; ci++ {
		ci := ci
		simrt.GoNamed(fmt.Sprintf("caller%d", ci), func() {
			for s := 0; s < c.perCall[ci] && rc.Viol == nil; s++ {
				call := w.NewCall(ci, s, uint16(simrt.Choose(65536)), 1)
				ctx, cancel := context.WithTimeout(context.Background(), 3*time.Second)
				call.Ctx, call.Cancel = ctx, cancel
				if simrt.Choose(100) < c.pCancel {
					d := time.Duration(simrt.Choose(10)) * time.Millisecond
					simrt.GoNamed("cancel", func() {
						simrt.Sleep(0, d)
						simrt.Fault("ctx_cancel")
						cancel()
					}).Daemon = true
				}
				w.Exchange(u, call)
				if call.Err != nil && ctx.Err() == nil && c.Lq == c.L && c.pDialFail == 0 {
					// the server is healthy, dials succeed, the context is live:
					// nothing licenses a failure
					rc.Fail("query_refused_on_healthy_transport", "call %d failed with %q although its context is live, the server answers and connections can be opened (limit %d)", call.Idx, call.Err, c.L)
				}
				cancel()
				w.CheckProvenance(call)
			}
			simrt.Send(0, done, struct{}{})
		})
	}
	for i := 0; i < c.callers; i++ {
		simrt.Recv(0, done)
	}
	if rc.Viol != nil {
		u.Close()
		return
	}
	if c.pDialFail > 0 {
		// failed dials leave their (never established) connections registered
		// until something touches them: Close must cope with those too
		simrt.Probe("c09.close_after_dial_failures")
		u.Close()
		return
	}
	// ---- quiescent capacity probe ----
	simrt.Sleep(0, 50*time.Millisecond) // let late replies drain
	var live []*simnet.Conn
	for _, cc := range rc.Net.Conns() {
		if !cc.IsClosed() && !cc.Peer().IsClosed() {
			live = append(live, cc)
		}
	}
	if len(live) == 0 || len(live) > 6 {
		u.Close()
		return
	}
	// outstanding left-overs (queries never answered) are void: their callers are gone
	for _, cc := range live {
		w.Outstanding[cc.ID] = map[uint16]int{}
	}
	simrt.Probe("c09.capacity_probe")
	hold = make(chan struct{})
	dials0 := len(rc.Net.Conns())
	want := len(live) * c.L
	pdone := make(chan struct{}, want+1)
	var probeCalls []*Call
	for i := 0; i < want; i++ {
		call := w.NewCall(200+i, 0, uint16(i), 1)
		probeCalls = append(probeCalls, call)
		simrt.GoNamed(fmt.Sprintf("probe%d", i), func() {
			w.Exchange(u, call)
			simrt.Send(0, pdone, struct{}{})
		})
	}
	simrt.Sleep(0, 5*time.Millisecond) // quiescence: every admitted query has been written
	liveDied := func() bool {
		// A connection that carried a never-answered query is (rightly) declared
		// dead by the client 10 s after it last armed its waiting-reply deadline; if
		// that instant falls into the probe, the probe says nothing.
		for _, cc := range live {
			if cc.IsClosed() || cc.Peer().IsClosed() {
				return true
			}
		}
		return false
	}
	if liveDied() {
		simrt.Probe("c09.capacity_probe_void_connection_died")
		close(hold)
		u.Close()
		return
	}
	if d := len(rc.Net.Conns()) - dials0; d != 0 {
		per := map[int]int{}
		for _, cc := range live {
			n, _ := w.liveOutstanding(cc.ID)
			per[cc.ID] = n
		}
		rc.Fail("capacity_lost", "%d live quiescent connection(s) with limit %d should admit %d queries, but the transport dialled %d new connection(s); unanswered per live connection: %v",
			len(live), c.L, want, d, per)
	} else {
		for _, cc := range live {
			if n, _ := w.liveOutstanding(cc.ID); n != c.L {
				rc.Fail("capacity_uneven", "connection %d holds %d unanswered queries at quiescence, expected %d", cc.ID, n, c.L)
			}
		}
	}
	if rc.Viol == nil {
		// one more must go to a new connection
		extra := w.NewCall(300, 0, 7, 1)
		probeCalls = append(probeCalls, extra)
		want++
		simrt.GoNamed("probe-extra", func() {
			w.Exchange(u, extra)
			simrt.Send(0, pdone, struct{}{})
		})
		simrt.Sleep(0, 5*time.Millisecond)
		if liveDied() {
			simrt.Probe("c09.capacity_probe_void_connection_died")
			close(hold)
			u.Close()
			return
		}
		if d := len(rc.Net.Conns()) - dials0; d != 1 {
			rc.Fail("limit_not_enforced_at_capacity", "with every live connection at its limit %d, one more query led to %d new connections (expected 1)", c.L, d)
		}
	}
	close(hold)
	for i := 0; i < want; i++ {
		simrt.Recv(0, pdone)
	}
	for _, pc := range probeCalls {
		if pc.Err != nil && rc.Viol == nil && !liveDied() {
			rc.Fail("probe_call_failed", "capacity probe call %d failed: %v", pc.Idx, pc.Err)
		}
		w.CheckProvenance(pc)
	}
	u.Close()
}

func c09Dialing(rc *RunCtx, c *c09cfg, w *W1) {
	dialGate := make(chan struct{})
	plan := func(sc *simnet.Conn, nth int, call *Call, wid uint16) Action {
		if n, ids := w.liveOutstanding(sc.ID); n > c.L {
			rc.Fail("limit_exceeded", "connection %d carries %d unanswered live queries %v, limit is %d", sc.ID, n, ids, c.L)
		}
		a := Action{}
		if simrt.Choose(100) < c.pDelay {
			a.Delay = time.Duration(1+simrt.Choose(5)) * time.Millisecond
		}
		return a
	}
	serve := w.Serve(ServerOpts{Plan: plan})
	dialStarted := 0
	fault := func(ctx context.Context, nth int) error {
		dialStarted++
		simrt.Fault("dial_held")
		simrt.Select(0, false, simrt.R(dialGate, nil, nil), simrt.R(ctx.Done(), nil, nil))
		return ctx.Err()
	}
	rc.Net.Handle("udp", srvAddr, serve).DialFault = fault
	rc.Net.Handle("tcp", srvAddr, serve).DialFault = fault
	u := w.NewTransport(c.kind, TransportOpts{MaxCQ: c.L, MaxLazyQ: c.Lq, IdleTimeout: time.Hour})
	n := c.Lq
	done := make(chan struct{}, n+8)
	var calls []*Call
	// some queued callers give up exactly when the dial completes (see below)
	var cancels []context.CancelFunc
	for i := 0; i < n; i++ {
		call := w.NewCall(i, 0, uint16(i), 1)
		calls = append(calls, call)
		if simrt.Choose(4) == 0 {
			ctx, cancel := context.WithCancel(context.Background())
			call.Ctx = ctx
			cancels = append(cancels, cancel)
		}
		simrt.GoNamed(fmt.Sprintf("early%d", i), func() {
			w.Exchange(u, call)
			simrt.Send(0, done, struct{}{})
		})
	}
	simrt.Sleep(0, time.Millisecond)
	if dialStarted != 1 {
		rc.Fail("dialing_queue_limit", "%d callers (queue limit %d) on a transport whose only connection is still dialing started %d dials (expected 1)", n, c.Lq, dialStarted)
	}
	extra := false
	if rc.Viol == nil && simrt.Choose(2) == 0 {
		// the (Lq+1)-th caller must not be queued on the full dialing connection
		extra = true
		call := w.NewCall(50, 0, 50, 1)
		calls = append(calls, call)
		simrt.GoNamed("early-extra", func() {
			w.Exchange(u, call)
			simrt.Send(0, done, struct{}{})
		})
		simrt.Sleep(0, time.Millisecond)
		if dialStarted != 2 {
			rc.Fail("dialing_queue_limit", "caller %d on a dialing connection with queue limit %d: %d dials started (expected 2)", n+1, c.Lq, dialStarted)
		}
		n++
	}
	_ = extra
	if rc.Viol == nil && simrt.Choose(2) == 0 {
		// Churn while every dial is still held: callers give up, new callers
		// arrive. A dialing connection that holds fewer queued queries than its
		// queue limit admits another one, so a new dial may only start when all
		// dialing connections are full.
		simrt.Probe("c09.churn_while_dialing")
		live := func() int {
			k := 0
			for _, x := range calls {
				if x.Started && !x.Done && (x.Ctx == nil || x.Ctx.Err() == nil) {
					k++
				}
			}
			return k
		}
		var churnCancels []context.CancelFunc
		add := func(idx int) {
			call := w.NewCall(300+idx, 0, uint16(300+idx), 1)
			ctx, cancel := context.WithCancel(context.Background())
			call.Ctx = ctx
			churnCancels = append(churnCancels, cancel)
			calls = append(calls, call)
			before, liveBefore := dialStarted, live()
			simrt.GoNamed(fmt.Sprintf("churn%d", idx), func() {
				w.Exchange(u, call)
				simrt.Send(0, done, struct{}{})
			})
			n++
			simrt.Sleep(0, time.Millisecond)
			if dialStarted > before && liveBefore < before*c.Lq && rc.Viol == nil {
				rc.Fail("dial_although_dialing_connection_has_room", "%d dialing connection(s) with queue limit %d hold %d live queued queries, yet one more caller made the transport dial again", before, c.Lq, liveBefore)
			}
		}
		idx := 0
		for round := 0; round < 1+simrt.Choose(3) && rc.Viol == nil; round++ {
			// arrivals (some of them find everything full and open another connection)
			for k := 1 + simrt.Choose(c.Lq+1); k > 0 && rc.Viol == nil; k-- {
				add(idx)
				idx++
			}
			// departures
			for k := simrt.Choose(len(churnCancels) + 1); k > 0; k-- {
				j := simrt.Choose(len(churnCancels))
				churnCancels[j]()
				simrt.Fault("queued_caller_gives_up_while_dialing")
			}
			simrt.Sleep(0, time.Millisecond)
		}
		for k := 1 + simrt.Choose(2); k > 0 && rc.Viol == nil; k-- {
			add(idx)
			idx++
		}
	}
	simrt.Probe("c09.dial_released_with_queued_callers")
	if len(cancels) > 0 {
		simrt.GoNamed("cancel-at-dial-completion", func() {
			for _, cf := range cancels {
				simrt.Fault("ctx_cancel_at_dial_completion")
				cf()
			}
		})
	}
	close(dialGate)
	// Late callers arrive at the very instant the dial completes: they compete
	// with the queued callers for the fresh connection's slots. The queued ones
	// must still all be admitted (the late ones may go to another connection).
	nlate := simrt.Choose(3)
	var late []*Call
	for i := 0; i < nlate; i++ {
		call := w.NewCall(70+i, 0, uint16(70+i), 1)
		late = append(late, call)
		simrt.GoNamed(fmt.Sprintf("late%d", i), func() {
			w.Exchange(u, call)
			simrt.Send(0, done, struct{}{})
		})
	}
	if nlate > 0 {
		simrt.Probe("c09.late_callers_at_dial_completion")
	}
	for i := 0; i < n+nlate; i++ {
		simrt.Recv(0, done)
	}
	for _, x := range calls {
		if x.Ctx != nil && x.Ctx.Err() != nil {
			continue // gave up at dial completion
		}
		if c.Lq > c.L {
			continue // unequal limits: part of the queued queries may be refused; the per-connection limit still holds (checked by the server)
		}
		if x.Err != nil && rc.Viol == nil {
			rc.Fail("queued_query_refused_after_dial", "call %d, queued while the connection was dialing (queue limit %d = connection limit %d), failed after the dial succeeded: %v", x.Idx, c.L, c.L, x.Err)
		}
		w.CheckProvenance(x)
	}
	for _, x := range late {
		if c.Lq > c.L {
			break // with unequal limits a late caller may itself be queued on a dialing connection and refused
		}
		if x.Err != nil && rc.Viol == nil {
			rc.Fail("late_query_failed", "call %d, issued when the dial completed, failed: %v", x.Idx, x.Err)
		}
		w.CheckProvenance(x)
	}
	u.Close()
}

func c09Direct(rc *RunCtx, c *c09cfg, w *W1) {
	stream := c.kind.stream()
	network := "udp"
	if stream {
		network = "tcp"
	}
	plan := func(sc *simnet.Conn, nth int, call *Call, wid uint16) Action {
		a := Action{}
		if simrt.Choose(100) < c.pNoReply {
			a.NoReply = true
		}
		if simrt.Choose(100) < c.pDelay {
			a.Delay = time.Duration(1+simrt.Choose(10)) * time.Millisecond
		}
		return a
	}
	rc.Net.Handle(network, srvAddr, w.Serve(ServerOpts{Plan: plan}))
	nc, err := rc.Net.Dial(context.Background(), network, srvAddr)
	if err != nil {
		panic(err)
	}
	opts := transport.TraditionalDnsConnOpts{WithLengthHeader: stream, IdleTimeout: time.Hour, MaxConcurrentQuery: c.L}
	dc := transport.NewDnsConn(opts, nc)
	// fresh capacity
	fresh := countReservations(dc)
	if fresh != c.L {
		rc.Fail("fresh_capacity_wrong", "a fresh connection with limit %d admitted %d reservations", c.L, fresh)
	}
	done := make(chan struct{}, 64)
	refused := 0
	for ci := 0; ci < c.callers; ci++ {
		ci := ci
		simrt.GoNamed(fmt.Sprintf("user%d", ci), func() {
			for s := 0; s < c.perCall[ci] && rc.Viol == nil; s++ {
				rx, closed := dc.ReserveNewQuery()
				if closed {
					break
				}
				if rx == nil {
					refused++
					simrt.Probe("c09.direct_refused")
					simrt.Sleep(0, time.Millisecond)
					continue
				}
				switch simrt.Choose(3) {
				case 0:
					simrt.Fault("withdraw_reservation")
					if simrt.Choose(2) == 0 {
						simrt.Sleep(0, time.Millisecond)
					}
					rx.WithdrawReserved()
				default:
					call := w.NewCall(ci, s, uint16(simrt.Choose(65536)), 1)
					ctx, cancel := context.WithTimeout(context.Background(), time.Duration(1+simrt.Choose(40))*time.Millisecond)
					call.Ctx = ctx
					call.Started = true
					call.StartStep = simrt.S.Steps()
					r, err := rx.ExchangeReserved(ctx, call.Query)
					cancel()
					call.Done, call.Err = true, err
					if err == nil {
						call.Resp = append([]byte(nil), (*r)...)
						w.CheckProvenance(call)
					}
				}
			}
			simrt.Send(0, done, struct{}{})
		})
	}
	for i := 0; i < c.callers; i++ {
		simrt.Recv(0, done)
	}
	simrt.Sleep(0, 100*time.Millisecond)
	if rc.Viol == nil && !dc.IsClosed() {
		q, rsv := dc.VerifQueueLen()
		if q != 0 || rsv != 0 {
			rc.Fail("counter_not_zero_at_quiescence", "after every reservation was used or withdrawn the connection reports queued=%d reserved=%d", q, rsv)
		} else if got := countReservations(dc); got != fresh {
			rc.Fail("capacity_lost", "a used-then-quiescent connection admits %d reservations, a fresh one %d", got, fresh)
		}
		simrt.Probe("c09.direct_probe")
	}
	dc.Close()
}

// countReservations reserves until refusal, then withdraws everything.
func countReservations(dc *transport.TraditionalDnsConn) int {
	var rs []transport.ReservedExchanger
	for i := 0; i < 1000; i++ {
		rx, _ := dc.ReserveNewQuery()
		if rx == nil {
			break
		}
		rs = append(rs, rx)
	}
	for _, rx := range rs {
		rx.WithdrawReserved()
	}
	return len(rs)
}

func c09Post(rc *RunCtx, res simrt.Result) {
	c := rc.priv.(*c09cfg)
	if res.End != simrt.EndClean && rc.Viol == nil {
		// The server answers everything that reaches it and dials succeed: a call
		// that never returns means a healthy connection stopped admitting queries.
		if c.w != nil && (res.End == simrt.EndStuck || res.End == simrt.EndDeadlock) {
			for _, x := range c.w.Calls {
				if x.Started && !x.Done {
					rc.Fail("query_never_admitted", "call %d never returned although the server is healthy and connections can be opened (run ended %s: %s)", x.Idx, res.End, leakSummary(res))
					return
				}
			}
		}
		rc.Inconcl = "run did not end cleanly: " + res.End.String()
	}
}

var _ upstream.Upstream
