package h

import (
	"bytes"
	"context"
	"encoding/binary"
	"errors"
	"fmt"
	"time"

	"github.com/IrineSistiana/mosdns/v5/pkg/upstream"
	"github.com/IrineSistiana/mosdns/v5/pkg/upstream/doh"
	"github.com/IrineSistiana/mosdns/v5/pkg/upstream/transport"
	"github.com/miekg/dns"
	"verif/sim/simnet"
	"verif/sim/simrt"
)

// ---- W1: transport world ----

// Tx is one transmission of a call's query as seen by the server.
type Tx struct {
	Conn   int
	WireID uint16
	Step   int
	At     time.Duration
	Stream bool
}

// ReplyInfo tags a reply frame produced by the sim server.
type ReplyInfo struct {
	Call   int // call index, -1 for stray
	Conn   int
	WireID uint16
	Nonce  uint32
	ForTx  int // index into call.Txs
	Kind   string
}

func (r ReplyInfo) String() string {
	return fmt.Sprintf("reply{call=%d conn=%d wid=%d nonce=%d tx=%d %s}", r.Call, r.Conn, r.WireID, r.Nonce, r.ForTx, r.Kind)
}

// Call is one ExchangeContext invocation.
type Call struct {
	KilledAt   time.Duration // C02: 1 + instant at which the client closed the healthy connection carrying this query
	KilledConn int
	Idx      int
	Caller   int
	Seq      int
	QName    string
	QType    uint16
	OrigID   uint16
	Query    []byte
	Ctx      context.Context
	Cancel   context.CancelFunc
	Deadline time.Duration // 0 = none (relative to run start)
	Started  bool
	StartStep, EndStep int
	StartAt, EndAt     time.Duration
	Done     bool
	Resp     []byte
	Err      error
	Txs      []Tx
	CancelledStep int // step at which the harness cancelled the ctx (0 = never)
	CancelledAt   time.Duration
	// C02 bookkeeping
	Delivered   []DeliveredReply // replies the server put on the wire while the call was outstanding and live
	Timely      []uint32 // nonces of replies consumed while the call was outstanding and live
	TimelyStep  int
	TimelyAt    time.Duration
}

// DeliveredReply is a reply that reached the client's receive buffer.
type DeliveredReply struct {
	Nonce uint32
	Conn  int
	At    time.Duration
	Step  int
}

// W1 holds the world of a transport run.
type W1 struct {
	rc      *RunCtx
	Calls   []*Call
	byName  map[string]*Call
	stalled map[int]chan struct{} // conn -> closed when the slow frame write is over
	Replies map[uint32]ReplyInfo
	nonce   uint32
	Closed  bool // transport Close() has been called
	CloseStep int
	// Outstanding[conn][wireID] = call index of a query received and not yet answered.
	Outstanding map[int]map[uint16]int
	CheckDupWid bool
	CheckFrames bool
	MaxQueryFrame int // with CheckFrames: longest frame a query may announce (default 1024)
	// DoQDialFault is applied to the (fake) QUIC connection dial.
	DoQDialFault func(ctx context.Context, nth int) error
	MaxOutstanding map[int]int // per conn: maximum number of unanswered queries seen
}

func newW1(rc *RunCtx) *W1 {
	return &W1{rc: rc, stalled: map[int]chan struct{}{}, byName: map[string]*Call{}, Replies: map[uint32]ReplyInfo{}, Outstanding: map[int]map[uint16]int{}, MaxOutstanding: map[int]int{}}
}

// NewCall creates a call with a unique question.
func (w *W1) NewCall(caller, seq int, id uint16, qtype uint16) *Call {
	c := &Call{Idx: len(w.Calls), Caller: caller, Seq: seq, OrigID: id, QType: qtype}
	c.QName = fmt.Sprintf("c%dq%d.r%d.test.", caller, seq, w.rc.Run)
	m := new(dns.Msg)
	m.SetQuestion(c.QName, qtype)
	m.Id = id
	b, err := m.Pack()
	if err != nil {
		panic(err)
	}
	c.Query = b
	w.Calls = append(w.Calls, c)
	w.byName[c.QName] = c
	return c
}

// parseQuery extracts wire id and question name from a raw query.
func parseQuery(b []byte) (id uint16, name string, ok bool) {
	if len(b) < 12 {
		return 0, "", false
	}
	id = binary.BigEndian.Uint16(b)
	name, _, err := dns.UnpackDomainName(b, 12)
	if err != nil {
		return id, "", false
	}
	return id, name, true
}

// MakeReply builds the server's reply for a received query: same question,
// wire id, and a TXT record carrying a fresh nonce.
func (w *W1) MakeReply(q []byte, info ReplyInfo, tc bool, pad int) ([]byte, ReplyInfo) {
	w.nonce++
	info.Nonce = w.nonce
	qm := new(dns.Msg)
	if err := qm.Unpack(q); err != nil {
		// reply with header only
		r := make([]byte, 12)
		copy(r, q[:2])
		r[2] = 0x80
		w.Replies[info.Nonce] = info
		return r, info
	}
	r := new(dns.Msg)
	r.SetReply(qm)
	r.Id = info.WireID
	r.Truncated = tc
	txt := &dns.TXT{Hdr: dns.RR_Header{Name: qm.Question[0].Name, Rrtype: dns.TypeTXT, Class: dns.ClassINET, Ttl: 60},
		Txt: []string{fmt.Sprintf("nonce=%d", info.Nonce)}}
	r.Answer = append(r.Answer, txt)
	for i := 0; i < pad; i++ {
		r.Answer = append(r.Answer, &dns.TXT{Hdr: dns.RR_Header{Name: qm.Question[0].Name, Rrtype: dns.TypeTXT, Class: dns.ClassINET, Ttl: 60},
			Txt: []string{"padpadpadpadpadpadpadpadpadpadpadpadpadpadpadpadpadpadpadpadpadpadpadpadpadpadpadpadpadpad"}})
	}
	b, err := r.Pack()
	if err != nil {
		panic(err)
	}
	w.Replies[info.Nonce] = info
	return b, info
}

// replyNonce extracts the nonce and question from a reply.
func replyNonce(b []byte) (nonce uint32, qname string, qtype uint16, err error) {
	m := new(dns.Msg)
	if err = m.Unpack(b); err != nil {
		return
	}
	if len(m.Question) != 1 {
		err = fmt.Errorf("reply has %d questions", len(m.Question))
		return
	}
	qname, qtype = m.Question[0].Name, m.Question[0].Qtype
	for _, rr := range m.Answer {
		if t, ok := rr.(*dns.TXT); ok && len(t.Txt) == 1 {
			var n uint32
			if _, e := fmt.Sscanf(t.Txt[0], "nonce=%d", &n); e == nil {
				nonce = n
				return
			}
		}
	}
	err = fmt.Errorf("reply carries no nonce")
	return
}

// ServerOpts configures the scripted DNS server behaviour for one endpoint.
type ServerOpts struct {
	// Per received query (nth is 1-based per connection) decide what to do.
	Plan func(sc *simnet.Conn, nth int, call *Call, wireID uint16) Action
}

// Action is what the server does with one received query.
type Action struct {
	Delay     time.Duration // before replying
	NoReply   bool
	Dup       int  // extra copies of the reply
	DupDelay  time.Duration
	Stray     bool // also send a reply with an ID matching nothing
	TC        bool
	Pad       int
	CloseAfter bool // close the connection right after the reply (FIN)
	ResetAfter bool // reset the connection right after the reply
	SilentKillAfter bool // the server vanishes right after the reply (client learns on next write)
	CloseBefore bool // close instead of replying
	Garbage   bool // send a short/garbage frame instead
	Runt      bool // datagram only: send a runt (<12 bytes) datagram before the reply
	HoldUntil chan struct{} // reply only after this channel is closed
	// StallForge (stream only): the reply frame ends in an opaque record whose
	// data is, byte for byte, a length-prefixed reply with this query's wire ID
	// (registered as kind "embedded": it was never sent as a frame). The server
	// writes the frame up to that point, stalls for this long, then writes the
	// rest. A reader that loses its place in the stream during the stall takes
	// the embedded bytes for a frame.
	StallForge time.Duration
	// ForceID (non-zero): the reply carries this message ID instead of the wire ID
	// of the query (transports that do not match replies by ID - one stream per
	// query - must still hand the caller its own ID back)
	ForceID uint16
}

// Serve returns the per-connection server task body.
func (w *W1) Serve(opts ServerOpts) func(sc *simnet.Conn) {
	return func(sc *simnet.Conn) {
		nth := 0
		if w.CheckFrames {
			sc.MaxFrame = 1024 // no query of these workloads is anywhere near that long
			if w.MaxQueryFrame > 0 {
				sc.MaxFrame = w.MaxQueryFrame
			}
		}
		for {
			q, err := sc.ReadMsg()
			if err != nil && errors.Is(err, simnet.ErrFrameTooLarge) {
				w.rc.Fail("query_frame_corrupt", "conn %d: server received a frame header that is no query's: %v", sc.ID, err)
			}
			if err != nil {
				if !sc.IsClosed() {
					sc.Close()
				}
				return
			}
			nth++
			wid, name, ok := parseQuery(q)
			var call *Call
			if ok {
				call = w.byName[name]
			}
			if w.CheckFrames {
				// independent framer on the server side: every frame must be exactly
				// one known query (the wire ID may differ from the caller's)
				if call == nil {
					w.rc.Fail("query_frame_corrupt", "conn %d: server received a %d-byte frame that is not a query of any call: % x", sc.ID, len(q), q[:min(len(q), 48)])
				} else if len(q) != len(call.Query) || !bytes.Equal(q[2:], call.Query[2:]) {
					w.rc.Fail("query_frame_corrupt", "conn %d: frame for call %d differs from its query (%d vs %d bytes)", sc.ID, call.Idx, len(q), len(call.Query))
				}
			}
			txi := -1
			if call != nil {
				call.Txs = append(call.Txs, Tx{Conn: sc.ID, WireID: wid, Step: simrt.S.Steps(), At: simrt.S.Elapsed(), Stream: sc.Stream})
				txi = len(call.Txs) - 1
				w.onTx(call, txi)
			}
			act := Action{}
			if opts.Plan != nil {
				act = opts.Plan(sc, nth, call, wid)
			}
			ci := -1
			if call != nil {
				ci = call.Idx
			}
			info := ReplyInfo{Call: ci, Conn: sc.ID, WireID: wid, ForTx: txi, Kind: "reply"}
			if act.CloseBefore {
				sc.Close()
				return
			}
			send := func() {
				if act.HoldUntil != nil {
					simrt.Recv(0, act.HoldUntil)
				}
				if act.Delay > 0 {
					simrt.Sleep(0, act.Delay)
				}
				if sc.IsClosed() {
					return
				}
				if act.Garbage {
					simrt.Fault("srv_garbage")
					if sc.Stream {
						sc.WriteRaw([]byte{0, 5, 1, 2, 3, 4, 5})
					} else {
						sc.WriteRaw([]byte{1, 2, 3})
					}
					return
				}
				if act.Runt && !sc.Stream {
					simrt.Fault("srv_runt_datagram")
					sc.WriteRaw(make([]byte, simrt.Choose(12)))
				}
				if act.Stray {
					simrt.Fault("srv_stray")
					sinfo := info
					sinfo.Kind = "stray"
					sinfo.Call = -1
					sinfo.WireID = wid + 0x4000
					b, si := w.MakeReply(q, sinfo, false, 0)
					sc.WriteMsg(b, si)
				}
				if ch := w.stalled[sc.ID]; ch != nil {
					simrt.Recv(0, ch) // another reply is being written slowly: one frame at a time
					if sc.IsClosed() {
						return
					}
				}
				if !act.NoReply && act.StallForge > 0 && sc.Stream {
					simrt.Fault("srv_stall_inside_frame")
					einfo := info
					einfo.Kind = "embedded"
					inner, _ := w.MakeReply(q, einfo, false, 0)
					b, _ := w.MakeReply(q, info, false, 0)
					om := new(dns.Msg)
					if err := om.Unpack(b); err != nil {
						panic(err)
					}
					data := append([]byte{byte(len(inner) >> 8), byte(len(inner))}, inner...)
					om.Extra = append(om.Extra, &dns.NULL{Hdr: dns.RR_Header{Name: ".", Rrtype: dns.TypeNULL, Class: dns.ClassINET}, Data: string(data)})
					ob, err := om.Pack()
					if err != nil {
						panic(err)
					}
					if !bytes.HasSuffix(ob, data) {
						panic("embedded reply is not the tail of the frame")
					}
					frame := append([]byte{byte(len(ob) >> 8), byte(len(ob))}, ob...)
					cut := len(frame) - len(data)
					ch := make(chan struct{})
					w.stalled[sc.ID] = ch
					w.onReplied(sc.ID, wid)
					sc.WriteRaw(frame[:cut])
					simrt.Sleep(0, act.StallForge)
					if !sc.IsClosed() {
						sc.WriteRaw(frame[cut:])
					}
					delete(w.stalled, sc.ID)
					close(ch)
					return
				}
				if !act.NoReply {
					b, ri := w.MakeReply(q, info, act.TC, act.Pad)
					if act.ForceID != 0 && len(b) >= 2 {
						b[0], b[1] = byte(act.ForceID>>8), byte(act.ForceID)
					}
					w.onReplied(sc.ID, wid)
					sc.WriteMsg(b, ri)
					for i := 0; i < act.Dup; i++ {
						simrt.Fault("srv_dup")
						if act.DupDelay > 0 {
							simrt.Sleep(0, act.DupDelay)
						}
						if sc.IsClosed() {
							return
						}
						dinfo := info
						dinfo.Kind = "dup"
						b2, di := w.MakeReply(q, dinfo, act.TC, act.Pad)
						sc.WriteMsg(b2, di)
					}
				} else {
					simrt.Fault("srv_noreply")
				}
				if act.CloseAfter {
					simrt.Fault("srv_close_after_reply")
					sc.Close()
				} else if act.ResetAfter {
					simrt.Fault("srv_reset_after_reply")
					sc.Reset()
				} else if act.SilentKillAfter {
					sc.KillSilently()
				}
			}
			if act.Delay > 0 || act.HoldUntil != nil || act.DupDelay > 0 {
				simrt.GoNamed(fmt.Sprintf("reply[%d#%d]", sc.ID, nth), send).Daemon = true
			} else {
				send()
			}
			if (act.CloseAfter || act.ResetAfter || act.SilentKillAfter) && act.Delay == 0 && act.HoldUntil == nil {
				return
			}
		}
	}
}

func (w *W1) onTx(call *Call, txi int) {
	tx := call.Txs[txi]
	m := w.Outstanding[tx.Conn]
	if m == nil {
		m = map[uint16]int{}
		w.Outstanding[tx.Conn] = m
	}
	if other, ok := m[tx.WireID]; ok && other != call.Idx && w.CheckDupWid {
		o := w.Calls[other]
		if !o.Done && (o.Ctx == nil || o.Ctx.Err() == nil) {
			w.rc.Fail("duplicate_wire_id_outstanding", "conn %d: wire ID %d assigned to call %d while call %d still waits on it", tx.Conn, tx.WireID, call.Idx, other)
		}
	}
	m[tx.WireID] = call.Idx
	// count unanswered queries of live calls
	n := 0
	for _, ci := range m {
		_ = ci
		n++
	}
	if n > w.MaxOutstanding[tx.Conn] {
		w.MaxOutstanding[tx.Conn] = n
	}
}

func (w *W1) onReplied(conn int, wid uint16) {
	if m := w.Outstanding[conn]; m != nil {
		delete(m, wid)
	}
}

// Exchange performs the call on u and records the outcome.
func (w *W1) Exchange(u upstream.Upstream, c *Call) {
	c.Started = true
	c.StartStep, c.StartAt = simrt.S.Steps(), simrt.S.Elapsed()
	ctx := c.Ctx
	if ctx == nil {
		ctx = context.Background()
	}
	r, err := u.ExchangeContext(ctx, c.Query)
	c.EndStep, c.EndAt = simrt.S.Steps(), simrt.S.Elapsed()
	c.Done = true
	c.Err = err
	if err == nil && r == nil {
		w.rc.Fail("nil_reply_without_error", "call %d (%s): ExchangeContext returned neither a reply nor an error", c.Idx, c.QName)
	}
	if err == nil && r != nil {
		c.Resp = append([]byte(nil), (*r)...)
		if w.rc.Released(r) {
			w.rc.Fail("returned_buffer_already_released", "call %d (%s): the returned reply buffer had already been released to the pool", c.Idx, c.QName)
		}
		// the caller owns r from now on: nobody else may release it later
		w.rc.held = append(w.rc.held, heldBuf{r, fmt.Sprintf("call %d (%s)", c.Idx, c.QName)})
	}
}

// CheckProvenance is the C01 oracle for one successful call.
func (w *W1) CheckProvenance(c *Call) {
	if c.Err != nil || c.Resp == nil {
		return
	}
	rc := w.rc
	if len(c.Resp) < 12 {
		rc.Fail("short_reply", "call %d: reply of %d bytes", c.Idx, len(c.Resp))
		return
	}
	if id := binary.BigEndian.Uint16(c.Resp); id != c.OrigID {
		rc.Fail("wrong_id", "call %d (%s): reply ID %#04x, caller's ID %#04x", c.Idx, c.QName, id, c.OrigID)
		return
	}
	nonce, qn, qt, err := replyNonce(c.Resp)
	if err != nil {
		rc.Fail("reply_unparsable", "call %d (%s): %v (% x)", c.Idx, c.QName, err, c.Resp)
		return
	}
	if qn != c.QName || qt != c.QType {
		rc.Fail("foreign_question", "call %d asked %s/%d but got a reply for %s/%d", c.Idx, c.QName, c.QType, qn, qt)
		return
	}
	info, ok := w.Replies[nonce]
	if !ok {
		rc.Fail("unknown_nonce", "call %d: nonce %d was never produced", c.Idx, nonce)
		return
	}
	if info.Call != c.Idx {
		rc.Fail("foreign_reply", "call %d got %v", c.Idx, info)
		return
	}
	if info.Kind == "stray" {
		rc.Fail("stray_delivered", "call %d got stray %v", c.Idx, info)
	}
	if info.Kind == "embedded" {
		rc.Fail("bytes_inside_a_frame_delivered_as_reply", "call %d got %v: these bytes were record data inside another frame, never a frame of their own", c.Idx, info)
	}
}

// ---- transports under test ----

type TransportKind int

const (
	TkUDP TransportKind = iota // upstream.NewUpstream("udp://")
	TkTCP                      // upstream.NewUpstream("tcp://") non-pipelined
	TkTCPPipeline              // upstream.NewUpstream("tcp+pipeline://")
	TkPipelineStream           // transport.NewPipelineTransport over stream TraditionalDnsConn, small limits
	TkPipelineDgram            // same over datagram
	TkReuse                    // transport.NewReuseConnTransport direct
	TkDoH                      // doh.Upstream over a fake http.RoundTripper
	TkDoQ                      // PipelineTransport + QuicDnsConn over a fake quic.Connection
)

var tkNames = []string{"udp://", "tcp://", "tcp+pipeline://", "pipeline/stream", "pipeline/dgram", "reuse", "doh", "doq"}

func (k TransportKind) String() string { return tkNames[k] }

const srvAddr = "192.0.2.1:53"

type TransportOpts struct {
	MaxCQ       int           // per-connection limit for direct pipeline transports
	MaxLazyQ    int           // limit while dialing
	IdleTimeout time.Duration
}

// NewTransport builds the transport under test over the simulated network.
func (w *W1) NewTransport(k TransportKind, o TransportOpts) upstream.Upstream {
	n := w.rc.Net
	switch k {
	case TkUDP:
		u, err := upstream.NewUpstream("udp://"+srvAddr, upstream.Opt{})
		if err != nil {
			panic(err)
		}
		return u
	case TkTCP:
		u, err := upstream.NewUpstream("tcp://"+srvAddr, upstream.Opt{IdleTimeout: o.IdleTimeout})
		if err != nil {
			panic(err)
		}
		return u
	case TkTCPPipeline:
		u, err := upstream.NewUpstream("tcp+pipeline://"+srvAddr, upstream.Opt{IdleTimeout: o.IdleTimeout})
		if err != nil {
			panic(err)
		}
		return u
	case TkPipelineStream, TkPipelineDgram:
		stream := k == TkPipelineStream
		network := "udp"
		if stream {
			network = "tcp"
		}
		to := transport.TraditionalDnsConnOpts{WithLengthHeader: stream, IdleTimeout: o.IdleTimeout, MaxConcurrentQuery: o.MaxCQ}
		return transport.NewPipelineTransport(transport.PipelineOpts{
			DialContext: func(ctx context.Context) (transport.DnsConn, error) {
				c, err := n.Dial(ctx, network, srvAddr)
				if err != nil {
					return nil, err
				}
				return transport.NewDnsConn(to, c), nil
			},
			MaxConcurrentQueryWhileDialing: o.MaxLazyQ,
		})
	case TkDoH:
		u, err := doh.NewUpstream("https://doh.test/dns-query", &fakeRT{n: n}, nil)
		if err != nil {
			panic(err)
		}
		return dohUp{u}
	case TkDoQ:
		return transport.NewPipelineTransport(transport.PipelineOpts{
			DialContext: func(ctx context.Context) (transport.DnsConn, error) {
				if w.DoQDialFault != nil {
					if err := w.DoQDialFault(ctx, 0); err != nil {
						return nil, err
					}
				}
				if err := ctx.Err(); err != nil {
					return nil, err
				}
				return transport.NewQuicDnsConn(newFakeQuicConn(n, o.MaxCQ)), nil
			},
			MaxConcurrentQueryWhileDialing: o.MaxLazyQ,
		})
	case TkReuse:
		return transport.NewReuseConnTransport(transport.ReuseConnOpts{
			DialContext: func(ctx context.Context) (transport.NetConn, error) {
				c, err := n.Dial(ctx, "tcp", srvAddr)
				if err != nil {
					return nil, err
				}
				return c, nil
			},
			IdleTimeout: o.IdleTimeout,
		})
	}
	panic("bad kind")
}

func (k TransportKind) stream() bool {
	return k == TkTCP || k == TkTCPPipeline || k == TkPipelineStream || k == TkReuse || k == TkDoQ
}

func (k TransportKind) pipelined() bool {
	return k != TkTCP && k != TkReuse && k != TkDoH && k != TkDoQ
}
