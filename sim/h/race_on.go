//go:build race

package h

const raceEnabled = true
