package h

import (
	"bytes"
	"strings"
	"context"
	"fmt"
	"time"

	"github.com/IrineSistiana/mosdns/v5/pkg/upstream"
	"github.com/miekg/dns"
	"verif/sim/simnet"
	"verif/sim/simrt"
)

// C17 — truncated UDP replies are retried over TCP.
//
// Real upstream.NewUpstream("udp://…"); simnet has a datagram server and a
// stream server on the same address. UDP replies carry PRNG header flags (TC
// on/off, every other flag/rcode bit random) and sizes; the TCP side answers,
// refuses the connection, or dies mid-exchange.

func init() {
	Scenarios["C17"] = &Scenario{Setup: c17Setup, Main: c17Main, Post: c17Post}
}

type c17cfg struct {
	callers int
	perCall []int
	pTC     int
	tcpMode int // 0 answers, 1 refuses, 2 dies mid-exchange, 3 mixed
	w       *W1
	udpSent map[int][]byte // call -> last UDP reply bytes sent
	udpTC   map[int]bool
	tcpSeen map[int][][]byte // call -> queries seen on TCP
	tcpDials int
	tcpDialsByCall map[int]int
	tcpSent     map[int][]byte // last TCP reply bytes sent for this call
	tcpAnswered map[int]bool // the TCP server wrote a reply for this call
	tcpKilled   map[int]bool // the TCP server died while handling this call
	refusedAt   []int        // steps at which a TCP dial was refused
	history     bool
	healAfter   int // history family: the TCP side fails for the first healAfter TCP queries/dials, then answers
	tcpEvents   int
	twin        bool // family: two byte-identical queries in flight, both truncated over UDP
	slow        bool // family: late UDP replies (after the 1 s retransmission), slow TCP replies, 2 s caller deadlines
	udpPlanned  map[int]bool
	tcpAnsweredAt map[int]time.Duration
}

func c17Setup(rc *RunCtx) simrt.Config {
	r := rc.R
	cfg, sname := drawSimConfig(r, 30000)
	c := &c17cfg{udpPlanned: map[int]bool{}, tcpAnsweredAt: map[int]time.Duration{}, tcpSent: map[int][]byte{}, udpSent: map[int][]byte{}, udpTC: map[int]bool{}, tcpSeen: map[int][][]byte{}, tcpDialsByCall: map[int]int{}, tcpAnswered: map[int]bool{}, tcpKilled: map[int]bool{}}
	c.callers = 1 + r.Choose(4)
	for i := 0; i < c.callers; i++ {
		c.perCall = append(c.perCall, 1+r.Choose(4))
	}
	c.pTC = []int{0, 30, 50, 100}[r.Choose(4)]
	c.tcpMode = r.Choose(4)
	if r.Choose(8) == 0 {
		// history family: a long stream of truncated replies on one upstream whose
		// TCP side fails many times and then recovers
		c.history = true
		c.callers = 1 + r.Choose(2)
		c.perCall = nil
		for i := 0; i < c.callers; i++ {
			c.perCall = append(c.perCall, 20+r.Choose(25))
		}
		c.pTC = 100
		c.healAfter = 10 + r.Choose(25)
	}
	if !c.history && r.Choose(4) == 0 {
		c.slow = true
		c.pTC = []int{50, 100}[r.Choose(2)]
	}
	if !c.history && !c.slow && r.Choose(10) == 0 {
		c.twin = true
	}
	rc.Cfg["twin"] = c.twin
	rc.Cfg["slow"] = c.slow
	rc.Cfg["history"] = c.history
	rc.Net.ChunkMode = r.Choose(3)
	rc.Cfg["strategy"] = sname
	rc.Cfg["kind"] = "udp:// with TCP fallback"
	rc.Cfg["callers"] = c.callers
	rc.Cfg["p_tc"] = c.pTC
	rc.Cfg["tcp_mode"] = []string{"answers", "refuses", "dies", "mixed"}[c.tcpMode]
	rc.priv = c
	return cfg
}

// c17Twin: two callers send byte-identical queries (same question, same ID: a
// client retransmission, or two clients behind the same forwarder) at almost the
// same time; both UDP replies are truncated; the TCP side answers after 400 ms.
// The first caller's context ends early. The second caller's exchange is its
// own: it must get the TCP reply.
func c17Twin(rc *RunCtx, c *c17cfg, w *W1) {
	tcpQueries := 0
	rc.Net.Handle("udp", srvAddr, func(sc *simnet.Conn) {
		for {
			q, err := sc.ReadMsg()
			if err != nil {
				sc.Close()
				return
			}
			wid, _, ok := parseQuery(q)
			if !ok {
				continue
			}
			b, info := w.MakeReply(q, ReplyInfo{Call: 0, Conn: sc.ID, WireID: wid, Kind: "udp"}, true, 0)
			simrt.Fault("udp_reply_truncated")
			sc.WriteMsg(b, info)
		}
	})
	rc.Net.Handle("tcp", srvAddr, func(sc *simnet.Conn) {
		for {
			q, err := sc.ReadMsg()
			if err != nil {
				if !sc.IsClosed() {
					sc.Close()
				}
				return
			}
			wid, _, ok := parseQuery(q)
			if !ok {
				continue
			}
			tcpQueries++
			simrt.Sleep(0, 400*time.Millisecond)
			if sc.IsClosed() {
				return
			}
			b, info := w.MakeReply(q, ReplyInfo{Call: 0, Conn: sc.ID, WireID: wid, Kind: "tcp"}, false, 0)
			sc.WriteMsg(b, info)
		}
	})
	u, err := upstream.NewUpstream("udp://"+srvAddr, upstream.Opt{})
	if err != nil {
		panic(err)
	}
	a := w.NewCall(0, 0, uint16(simrt.Choose(65536)), 1)
	bq := append([]byte(nil), a.Query...)
	dA := []time.Duration{50 * time.Millisecond, 100 * time.Millisecond, 300 * time.Millisecond, 2 * time.Second}[simrt.Choose(4)]
	lag := []time.Duration{0, time.Millisecond, 20 * time.Millisecond}[simrt.Choose(3)]
	done := make(chan struct{}, 2)
	simrt.GoNamed("twinA", func() {
		ctx, cancel := context.WithTimeout(context.Background(), dA)
		a.Ctx = ctx
		w.Exchange(u, a)
		cancel()
		simrt.Send(0, done, struct{}{})
	})
	var bResp []byte
	var bErr error
	var bEnd, bStart time.Duration
	simrt.GoNamed("twinB", func() {
		if lag > 0 {
			simrt.Sleep(0, lag)
		}
		ctx, cancel := context.WithTimeout(context.Background(), 20*time.Second)
		defer cancel()
		bStart = simrt.S.Elapsed()
		r, err := u.ExchangeContext(ctx, bq)
		bEnd, bErr = simrt.S.Elapsed(), err
		if err == nil && r != nil {
			bResp = append([]byte(nil), (*r)...)
		}
		simrt.Send(0, done, struct{}{})
	})
	simrt.Recv(0, done)
	simrt.Recv(0, done)
	u.Close()
	if rc.Viol != nil {
		return
	}
	if bErr != nil {
		rc.Fail("twin_query_failed", "two identical queries in flight, both truncated over UDP; the first caller's context ended after %v; the second caller (started t=%v, deadline 20s) failed at t=%v with %q although the TCP side answers every query after 400ms (TCP queries seen: %d)",
			dA, bStart, bEnd, bErr, tcpQueries)
		return
	}
	nonce, qn, _, err := replyNonce(bResp)
	if err != nil || qn != a.QName {
		rc.Fail("twin_query_wrong_reply", "second caller got %v / %q", err, qn)
		return
	}
	if info := w.Replies[nonce]; info.Kind != "tcp" {
		rc.Fail("truncated_udp_reply_returned", "second of two identical queries: returned %v instead of a TCP reply", info)
		return
	}
	simrt.Probe("c17.twin_ok")
}

// c17PadTo appends one TXT record to the packed reply b so that it is exactly
// target bytes long (the record goes to the additional section).
func c17PadTo(b []byte, target int) ([]byte, bool) {
	m := new(dns.Msg)
	if m.Unpack(b) != nil {
		return nil, false
	}
	for fill := target - len(b); fill > 0; fill-- {
		var txt []string
		for rest := fill; rest > 0; rest -= 255 {
			n := rest
			if n > 255 {
				n = 255
			}
			txt = append(txt, strings.Repeat("p", n))
		}
		m2 := m.Copy()
		m2.Extra = append(m2.Extra, &dns.TXT{Hdr: dns.RR_Header{Name: "pad.", Rrtype: dns.TypeTXT, Class: dns.ClassINET}, Txt: txt})
		out, err := m2.Pack()
		if err == nil && len(out) == target {
			return out, true
		}
		if err == nil && len(out) < target {
			break
		}
	}
	return nil, false
}

func c17Main(rc *RunCtx) {
	c := rc.priv.(*c17cfg)
	w := newW1(rc)
	c.w = w
	if c.twin {
		c17Twin(rc, c, w)
		return
	}
	// UDP server: custom loop (flags are rewritten after building the reply)
	rc.Net.Handle("udp", srvAddr, func(sc *simnet.Conn) {
		for {
			q, err := sc.ReadMsg()
			if err != nil {
				sc.Close()
				return
			}
			wid, name, ok := parseQuery(q)
			if !ok {
				continue
			}
			call := w.byName[name]
			if call == nil {
				continue
			}
			call.Txs = append(call.Txs, Tx{Conn: sc.ID, WireID: wid, Step: simrt.S.Steps(), At: simrt.S.Elapsed()})
			if c.slow {
				if c.udpPlanned[call.Idx] {
					continue // a retransmission of a query whose (late) reply is already under way
				}
				c.udpPlanned[call.Idx] = true
			}
			var udpDelay time.Duration
			if c.slow && simrt.Choose(2) == 0 {
				udpDelay = 1300 * time.Millisecond // the reply answers the 1 s retransmission
				simrt.Fault("udp_reply_late")
			}
			tc := simrt.Choose(100) < c.pTC
			pad := []int{0, 0, 3, 30}[simrt.Choose(4)]
			b, info := w.MakeReply(q, ReplyInfo{Call: call.Idx, Conn: sc.ID, WireID: wid, Kind: "udp"}, false, pad)
			if !tc && simrt.Choose(8) == 0 {
				// a complete reply that exactly fills (or almost fills) a 4 KiB-ish
				// receive buffer: size alone says nothing about truncation
				target := []int{4094, 4095, 1232, 512}[simrt.Choose(4)] // 4095 is the client's receive buffer: a longer datagram would be cut by the socket
				if bb, ok := c17PadTo(b, target); ok {
					b = bb
					simrt.Fault("udp_reply_of_boundary_size")
				}
			}
			// random header flags, TC as chosen
			b[2] = byte(simrt.Choose(256))
			b[3] = byte(simrt.Choose(256))
			if tc {
				b[2] |= 0x02
				simrt.Fault("udp_reply_truncated")
			} else {
				b[2] &^= 0x02
			}
			if simrt.Choose(6) == 0 {
				// a server may strip everything but the 12-byte header
				b = append([]byte(nil), b[:12]...)
				b[4], b[5], b[6], b[7], b[8], b[9], b[10], b[11] = 0, 0, 0, 0, 0, 0, 0, 0
				simrt.Fault("udp_reply_header_only")
			}
			c.udpSent[call.Idx] = append([]byte(nil), b...)
			c.udpTC[call.Idx] = tc
			if udpDelay > 0 {
				simrt.GoNamed(fmt.Sprintf("udpreply%d", call.Idx), func() {
					simrt.Sleep(0, udpDelay)
					if !sc.IsClosed() {
						sc.WriteMsg(b, info)
					}
				}).Daemon = true
				continue
			}
			sc.WriteMsg(b, info)
		}
	})
	tcp := rc.Net.Handle("tcp", srvAddr, func(sc *simnet.Conn) {
		for {
			q, err := sc.ReadMsg()
			if err != nil {
				if !sc.IsClosed() {
					sc.Close()
				}
				return
			}
			wid, name, ok := parseQuery(q)
			call := w.byName[name]
			if !ok || call == nil {
				continue
			}
			c.tcpSeen[call.Idx] = append(c.tcpSeen[call.Idx], append([]byte(nil), q...))
			mode := c.tcpMode
			if c.history {
				c.tcpEvents++
				mode = 0
				if c.tcpEvents <= c.healAfter {
					mode = 2
				}
			}
			if mode == 3 {
				mode = simrt.Choose(3)
				if mode == 1 {
					mode = 0
				}
			}
			if mode == 2 {
				simrt.Fault("tcp_dies_mid_exchange")
				c.tcpKilled[call.Idx] = true
				sc.Close()
				return
			}
			b, info := w.MakeReply(q, ReplyInfo{Call: call.Idx, Conn: sc.ID, WireID: wid, Kind: "tcp"}, false, 0)
			if simrt.Choose(2) == 0 {
				// the TCP reply is what the caller gets, whatever its header flags say
				// (TC included)
				b[2] = byte(simrt.Choose(256))
				b[3] = byte(simrt.Choose(256))
				if b[2]&0x02 != 0 {
					simrt.Fault("tcp_reply_with_tc_bit")
				}
			}
			if c.slow && simrt.Choose(2) == 0 {
				simrt.Sleep(0, 400*time.Millisecond)
				simrt.Fault("tcp_reply_slow")
			}
			c.tcpAnswered[call.Idx] = true
			c.tcpAnsweredAt[call.Idx] = simrt.S.Elapsed()
			c.tcpSent[call.Idx] = append([]byte(nil), b...)
			sc.WriteMsg(b, info)
		}
	})
	tcp.DialFault = func(ctx context.Context, nth int) error {
		c.tcpDials++
		mode := c.tcpMode
		if c.history {
			mode = 0
		}
		if mode == 3 && simrt.Choose(3) == 0 {
			mode = 1
		}
		if mode == 1 {
			simrt.Fault("tcp_refused")
			c.refusedAt = append(c.refusedAt, simrt.S.Steps())
			return simnet.ErrRefused
		}
		return nil
	}
	opt := upstream.Opt{}
	if simrt.Choose(6) == 0 {
		// Socks5 is documented as not implemented for UDP upstreams (the forward
		// plugin copies its global socks5 setting into every upstream): neither
		// leg of a udp:// upstream may go to the proxy. Nothing listens there.
		opt.Socks5 = "127.0.0.1:9"
		rc.Cfg["socks5_set"] = true
	}
	urlAddr := srvAddr
	if simrt.Choose(5) == 0 {
		// dial_addr: the URL names one address, the user tells mosdns to dial
		// another. Both legs belong to the dialed server ("retried over TCP to the
		// same server"); nothing listens at the URL's address, on either protocol.
		urlAddr = []string{"192.0.2.77", "192.0.2.77:5353", "dns.example.net"}[simrt.Choose(3)]
		opt.DialAddr = srvAddr
		rc.Cfg["dial_addr_set"] = urlAddr
	}
	u, err := upstream.NewUpstream("udp://"+urlAddr, opt)
	if err != nil {
		panic(err)
	}
	done := make(chan struct{}, c.callers)
	for ci := 0; ci < c.callers; ci++ {
		ci := ci
		simrt.GoNamed(fmt.Sprintf("caller%d", ci), func() {
			for s := 0; s < c.perCall[ci] && rc.Viol == nil; s++ {
				call := w.NewCall(ci, s, uint16(simrt.Choose(65536)), 1)
				dl := 20 * time.Second
				if c.slow {
					// 2 s: room for a late UDP reply plus a slow TCP reply; 1.3 s: ends at the
					// very instant the late UDP reply arrives; 150 ms / 1.5 s: end inside
					// the UDP wait / the TCP leg (the caller gives up, later calls go on)
					dl = []time.Duration{20 * time.Second, 2 * time.Second, 2 * time.Second, 1300 * time.Millisecond, 150 * time.Millisecond, 1500 * time.Millisecond}[simrt.Choose(6)]
				}
				ctx, cancel := context.WithTimeout(context.Background(), dl)
				call.Ctx = ctx
				call.Deadline = simrt.S.Elapsed() + dl
				if c.slow && dl == 1300*time.Millisecond {
					// the caller's context is ended by another task (its client went
					// away) at the very instant the late UDP reply arrives: the two
					// events are ordered by the scheduler, not by the clock
					cancel()
					ctx, cancel = context.WithCancel(context.Background())
					call.Ctx = ctx
					cf := cancel
					simrt.GoNamed(fmt.Sprintf("cancel%d", call.Idx), func() {
						simrt.Sleep(0, 1300*time.Millisecond)
						simrt.Fault("ctx_cancel_at_reply_arrival")
						cf()
					}).Daemon = true
				}
				if !c.slow && simrt.Choose(4) == 0 {
					// a caller without any deadline (cancelled only when it is done)
					cancel()
					ctx, cancel = context.WithCancel(context.Background())
					call.Ctx = ctx
					call.Deadline = 1 << 60
				}
				w.Exchange(u, call)
				cancel()
				c17Check(rc, c, call)
			}
			simrt.Send(0, done, struct{}{})
		})
	}
	for i := 0; i < c.callers; i++ {
		simrt.Recv(0, done)
	}
	u.Close()
}

func c17Check(rc *RunCtx, c *c17cfg, x *Call) {
	sent := c.udpSent[x.Idx]
	if sent == nil {
		return
	}
	if c.udpTC[x.Idx] {
		simrt.Probe("c17.tc_reply")
		seen := c.tcpSeen[x.Idx]
		if x.Err == nil {
			if len(x.Resp) == len(sent) && len(sent) >= 3 && bytes.Equal(x.Resp[2:], sent[2:]) {
				rc.Fail("truncated_udp_reply_returned", "call %d: the UDP reply had TC set (%d bytes), but the call returned that UDP reply instead of retrying over TCP", x.Idx, len(sent))
				return
			}
			nonce, _, _, err := replyNonce(x.Resp)
			if err != nil {
				rc.Fail("tc_result_unparsable", "call %d: %v", x.Idx, err)
				return
			}
			info := c.w.Replies[nonce]
			if info.Kind != "tcp" || info.Call != x.Idx {
				rc.Fail("truncated_udp_reply_returned", "call %d: the UDP reply had TC set, but the call returned %v instead of the TCP reply", x.Idx, info)
				return
			}
			if len(seen) == 0 {
				rc.Fail("tcp_retry_missing", "call %d: TC set but the query never appeared on TCP", x.Idx)
				return
			}
			if ts := c.tcpSent[x.Idx]; ts != nil && len(seen) == 1 && (len(ts) != len(x.Resp) || !bytes.Equal(ts[2:], x.Resp[2:])) {
				rc.Fail("tcp_reply_altered", "call %d: returned reply differs from the TCP reply: % x vs % x", x.Idx, x.Resp, ts)
				return
			}
			simrt.Probe("c17.tcp_answer_returned")
		} else if x.EndAt >= x.Deadline && x.Deadline-x.StartAt < 2*time.Second {
			// (a budget of 2 s or more covers the slowest UDP + TCP legs of this scenario: running into such a deadline is a hang)
			simrt.Probe("c17.caller_gave_up") // its context ended: any error will do
		} else {
			// the failure must be TCP's: either the query reached the TCP server and
			// it died, or a dial was refused while the call was in progress
			refused := false
			for _, st := range c.refusedAt {
				if st >= x.StartStep && st <= x.EndStep {
					refused = true
				}
			}
			if c.tcpAnswered[x.Idx] && !c.tcpKilled[x.Idx] && !refused && c.tcpAnsweredAt[x.Idx] < x.Deadline {
				rc.Fail("tcp_answer_not_returned", "call %d: the UDP reply had TC set and the TCP server answered at t=%v, before the caller's deadline t=%v, but the call failed at t=%v: %v", x.Idx, c.tcpAnsweredAt[x.Idx], x.Deadline, x.EndAt, x.Err)
				return
			}
			if !c.tcpKilled[x.Idx] && !refused && len(seen) == 0 {
				rc.Fail("tcp_retry_missing", "call %d: TC set, the TCP side is healthy (no refused dial, no killed exchange), but the query never appeared on TCP and the call failed: %v", x.Idx, x.Err)
				return
			}
			simrt.Probe("c17.tcp_failure_returned")
		}
		for _, q := range seen {
			if !bytes.Equal(q, x.Query) {
				rc.Fail("tcp_query_differs", "call %d: query sent over TCP differs from the caller's query: % x vs % x", x.Idx, q, x.Query)
				return
			}
		}
		return
	}
	simrt.Probe("c17.plain_reply")
	if x.Err != nil && x.EndAt >= x.Deadline && x.Deadline-x.StartAt < 2*time.Second {
		simrt.Probe("c17.caller_gave_up")
		return
	}
	if x.Err != nil {
		rc.Fail("untruncated_reply_not_returned", "call %d: UDP reply without TC was sent, but the call failed: %v", x.Idx, x.Err)
		return
	}
	if len(x.Resp) != len(sent) || !bytes.Equal(x.Resp[2:], sent[2:]) {
		rc.Fail("udp_reply_altered", "call %d: returned reply (%d bytes) differs from the UDP reply (%d bytes): % x vs % x", x.Idx, len(x.Resp), len(sent), x.Resp[:min(len(x.Resp), 64)], sent[:min(len(sent), 64)])
		return
	}
	if id := uint16(x.Resp[0])<<8 | uint16(x.Resp[1]); id != x.OrigID {
		rc.Fail("wrong_id", "call %d: reply ID %#04x, caller's %#04x", x.Idx, id, x.OrigID)
		return
	}
	if len(c.tcpSeen[x.Idx]) > 0 {
		rc.Fail("tcp_used_without_tc", "call %d: UDP reply had no TC bit but the query was sent over TCP", x.Idx)
	}
}

func c17Post(rc *RunCtx, res simrt.Result) {
	c := rc.priv.(*c17cfg)
	if c.w == nil {
		return
	}
	anyTC := false
	for _, tc := range c.udpTC {
		if tc {
			anyTC = true
		}
	}
	if !anyTC && c.tcpDials > 0 && rc.Viol == nil {
		rc.Fail("tcp_dialled_without_tc", "no UDP reply had TC set, yet %d TCP connection(s) were dialled", c.tcpDials)
	}
	if res.End != simrt.EndClean && rc.Viol == nil {
		rc.Inconcl = "run did not end cleanly: " + res.End.String()
	}
}
