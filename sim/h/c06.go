package h

import (
	"context"
	"errors"
	"fmt"
	"strings"
	"time"

	"github.com/IrineSistiana/mosdns/v5/coremain"
	"github.com/IrineSistiana/mosdns/v5/pkg/query_context"
	"github.com/IrineSistiana/mosdns/v5/plugin/executable/sequence"
	"github.com/miekg/dns"
	"go.uber.org/zap"
	"verif/sim/simrt"
)

// C06 — sequences execute exactly as their rules say.
//
// Real sequence.NewSequence on generated rule TEXT ('!' negation, '$tag',
// accept/reject/return/jump/goto, up to 5 sequences x 8 rules, jump depth <= 4)
// over tracer plugins in a real coremain test registry: matchers that return
// true/false/error or test the response, plain actions (ok / error / set / drop
// response), wrapping actions that stop, continue, post-process, run the
// continuation k times in sequence, or m times CONCURRENTLY on qCtx.Copy() as
// separate tasks (PRNG-scheduled). An independent interpreter of the
// statement's semantics runs the same text and yields, per continuation run,
// the ordered trace, final response marker and error; they must be equal.

func init() {
	Scenarios["C06"] = &Scenario{Setup: c06Setup, Main: c06Main, Post: c06Post}
}

// ---- program representation (harness side, independent of mosdns) ----

type c06plugin struct {
	Tag  string
	Kind string // mt mf me hasr | aok aerr setr dropr | wstop wcont wpost wseq wpar
	N    int    // wseq: times; wpar: copies; setr: marker
}

type c06rule struct {
	Matches []string
	Exec    string
}

type c06prog struct {
	Seqs    [][]c06rule // Seqs[i] may reference only j < i... (index = build order)
	Plugins map[string]*c06plugin
	Entry   int
}

// run state of the reference interpreter / real tracer
type c06run struct {
	ID    string
	Trace []string
	Resp  int // response marker, 0 = none; <0 = reject rcode marker
	Err   error
	Inv   map[string]int // per wrapper tag: how often it was invoked in this run
}

// inv returns the invocation number of wrapper tag within this run (0, 1, ...).
func (r *c06run) inv(tag string) int {
	if r.Inv == nil {
		r.Inv = map[string]int{}
	}
	k := r.Inv[tag]
	r.Inv[tag] = k + 1
	return k
}

var c06runKey = query_context.RegKey()

// ---- real tracer plugins ----

type c06tracer struct {
	p    *c06plugin
	rc   *RunCtx
	runs *c06runs
}

type c06runs struct {
	m   map[string]*c06run
	ord []string
	pending int
}

func (rs *c06runs) get(id string) *c06run {
	r := rs.m[id]
	if r == nil {
		r = &c06run{ID: id}
		rs.m[id] = r
		rs.ord = append(rs.ord, id)
	}
	return r
}

func runOf(rs *c06runs, qCtx *query_context.Context) *c06run {
	v, _ := qCtx.GetValue(c06runKey)
	id, _ := v.(string)
	return rs.get(id)
}

func respMarker(qCtx *query_context.Context) int {
	r := qCtx.R()
	if r == nil {
		return 0
	}
	for _, rr := range r.Answer {
		if t, ok := rr.(*dns.TXT); ok && len(t.Txt) == 1 {
			var n int
			if _, err := fmt.Sscanf(t.Txt[0], "m=%d", &n); err == nil {
				return n
			}
		}
	}
	return -1 - r.Rcode // produced by reject
}

func (t *c06tracer) Match(ctx context.Context, qCtx *query_context.Context) (bool, error) {
	simrt.Yield(0)
	run := runOf(t.runs, qCtx)
	switch t.p.Kind {
	case "mt":
		run.Trace = append(run.Trace, t.p.Tag+"=T")
		return true, nil
	case "mf":
		run.Trace = append(run.Trace, t.p.Tag+"=F")
		return false, nil
	case "me":
		run.Trace = append(run.Trace, t.p.Tag+"=E")
		return false, errors.New("err:" + t.p.Tag)
	case "hasr":
		has := qCtx.R() != nil
		run.Trace = append(run.Trace, fmt.Sprintf("%s=%v", t.p.Tag, has))
		return has, nil
	}
	panic("bad matcher kind")
}

// c06qmatch is a tagged matcher configured per rule through QuickConfigureMatch.
type c06qmatch struct{ *c06tracer }

func (t c06qmatch) QuickConfigureMatch(args string) (sequence.Matcher, error) {
	arg := strings.TrimSpace(args)
	return sequence.MatchFunc(func(ctx context.Context, qCtx *query_context.Context) (bool, error) {
		simrt.Yield(0)
		run := runOf(t.runs, qCtx)
		run.Trace = append(run.Trace, t.p.Tag+"("+arg+")")
		switch arg {
		case "t":
			return true, nil
		case "f":
			return false, nil
		}
		return false, errors.New("err:" + t.p.Tag)
	}), nil
}

// Exec (plain) and the wrapping variant are exposed through two wrapper types so
// that the sequence sees either an Executable or a RecursiveExecutable.
type c06plain struct{ *c06tracer }
type c06wrap struct{ *c06tracer }

func (t c06plain) Exec(ctx context.Context, qCtx *query_context.Context) error {
	simrt.Yield(0)
	run := runOf(t.runs, qCtx)
	run.Trace = append(run.Trace, t.p.Tag)
	switch t.p.Kind {
	case "aok":
	case "aerr":
		return errors.New("err:" + t.p.Tag)
	case "setr":
		r := new(dns.Msg)
		r.SetReply(qCtx.Q())
		r.Answer = append(r.Answer, &dns.TXT{Hdr: dns.RR_Header{Name: ".", Rrtype: dns.TypeTXT, Class: 1}, Txt: []string{fmt.Sprintf("m=%d", t.p.N)}})
		qCtx.SetResponse(r)
	case "dropr":
		qCtx.SetResponse(nil)
	}
	return nil
}

func (t c06wrap) Exec(ctx context.Context, qCtx *query_context.Context, next sequence.ChainWalker) error {
	simrt.Yield(0)
	run := runOf(t.runs, qCtx)
	run.Trace = append(run.Trace, t.p.Tag)
	switch t.p.Kind {
	case "wstop":
		return nil
	case "wcont":
		return next.ExecNext(ctx, qCtx)
	case "wpost":
		err := next.ExecNext(ctx, qCtx)
		run.Trace = append(run.Trace, t.p.Tag+":post")
		return err
	case "wlate":
		// like the cache's lazy refresh: keep the continuation and run it on a copy
		// AFTER this Exec has returned, from another task; continue normally meanwhile
		sub := fmt.Sprintf("%s/%s.%d#late", run.ID, t.p.Tag, run.inv(t.p.Tag))
		cp := qCtx.Copy()
		cp.StoreValue(c06runKey, sub)
		t.runs.get(sub)
		t.runs.pending++
		simrt.GoNamed("late:"+sub, func() {
			simrt.Sleep(0, time.Millisecond)
			t.runs.get(sub).Err = next.ExecNext(context.Background(), cp)
			t.runs.get(sub).Resp = respMarker(cp)
			t.runs.pending--
		})
		return next.ExecNext(ctx, qCtx)
	case "wseq":
		// run the continuation N times in sequence on the same query
		var first error
		k := run.inv(t.p.Tag)
		for i := 0; i < t.p.N; i++ {
			sub := fmt.Sprintf("%s/%s.%d#%d", run.ID, t.p.Tag, k, i)
			qCtx.StoreValue(c06runKey, sub)
			t.runs.get(sub).Resp = -999 // placeholder, set below
			err := next.ExecNext(ctx, qCtx)
			t.runs.get(sub).Resp = respMarker(qCtx)
			if err != nil && first == nil {
				first = err
			}
		}
		qCtx.StoreValue(c06runKey, run.ID)
		return first
	case "wpar":
		// run the continuation N times concurrently on copies of the query
		errs := make([]error, t.p.N)
		done := make(chan int, t.p.N)
		k := run.inv(t.p.Tag)
		for i := 0; i < t.p.N; i++ {
			i := i
			sub := fmt.Sprintf("%s/%s.%d#%d", run.ID, t.p.Tag, k, i)
			cp := qCtx.Copy()
			cp.StoreValue(c06runKey, sub)
			t.runs.get(sub)
			simrt.GoNamed("cont:"+sub, func() {
				errs[i] = next.ExecNext(ctx, cp)
				t.runs.get(sub).Resp = respMarker(cp)
				simrt.Send(0, done, i)
			})
		}
		for i := 0; i < t.p.N; i++ {
			simrt.Recv(0, done)
		}
		for _, e := range errs {
			if e != nil {
				return e
			}
		}
		return nil
	}
	panic("bad wrap kind")
}

// ---- generator ----

func c06Gen(r *simrt.Rand) *c06prog {
	p := &c06prog{Plugins: map[string]*c06plugin{}}
	nseq := 1 + r.Choose(widen(5, 8))
	depth := make([]int, nseq)
	np := 0
	newPlugin := func(kind string, n int) string {
		np++
		tag := fmt.Sprintf("%s%d", kind, np)
		p.Plugins[tag] = &c06plugin{Tag: tag, Kind: kind, N: n}
		return tag
	}
	parBudget := 2 // at most two concurrent wrappers per program (histories stay small)
	for si := 0; si < nseq; si++ {
		nr := r.Choose(widen(9, 13))
		var rules []c06rule
		for ri := 0; ri < nr; ri++ {
			var rule c06rule
			nm := r.Weighted(4, 3, 2, 1)
			for mi := 0; mi < nm; mi++ {
				var m string
				switch r.Weighted(4, 3, 1, 2, 1, 1, 2) {
				case 6:
					// a tagged matcher that takes per-rule arguments (QuickConfigureMatch)
					m = "$" + newPlugin("mq", 0) + " " + []string{"t", "f", "e"}[r.Choose(3)]
				case 0:
					m = "$" + newPlugin("mt", 0)
				case 1:
					m = "$" + newPlugin("mf", 0)
				case 2:
					m = "$" + newPlugin("me", 0)
				case 3:
					m = "$" + newPlugin("hasr", 0)
				case 4:
					m = "_true"
				default:
					m = "_false"
				}
				if r.Choose(3) == 0 {
					if r.Choose(2) == 0 {
						m = "!" + m
					} else {
						m = "! " + m
					}
				}
				rule.Matches = append(rule.Matches, m)
			}
			k := r.Weighted(6, 1, 3, 2, 1, 2, 2, 2, 2, 1, 1, 1, 2, 2, 2, 2)
			switch k {
			case 0:
				rule.Exec = "$" + newPlugin("aok", 0)
			case 1:
				rule.Exec = "$" + newPlugin("aerr", 0)
			case 2:
				rule.Exec = "$" + newPlugin("setr", 1+np)
			case 3:
				rule.Exec = "$" + newPlugin("dropr", 0)
			case 4:
				rule.Exec = "$" + newPlugin("wstop", 0)
			case 5:
				rule.Exec = "$" + newPlugin("wcont", 0)
			case 6:
				rule.Exec = "$" + newPlugin("wpost", 0)
			case 7:
				rule.Exec = "$" + newPlugin("wseq", r.Choose(3))
			case 8:
				if parBudget > 0 {
					parBudget--
					rule.Exec = "$" + newPlugin("wpar", 1+r.Choose(3))
				} else {
					rule.Exec = "$" + newPlugin("wcont", 0)
				}
			case 14:
				if parBudget > 0 {
					parBudget--
					rule.Exec = "$" + newPlugin("wlate", 0)
				} else {
					rule.Exec = "$" + newPlugin("wcont", 0)
				}
			case 9:
				rule.Exec = "accept"
			case 10:
				rule.Exec = []string{"reject", "reject 3", "reject 2"}[r.Choose(3)]
			case 11:
				rule.Exec = "return"
			case 12, 13, 15:
				// jump / goto to an earlier sequence (targets must exist when a sequence is built);
				// 15: the earlier sequence is invoked by its tag as a plain action
				var cands []int
				for j := 0; j < si; j++ {
					if depth[j] < 4 {
						cands = append(cands, j)
					}
				}
				if len(cands) == 0 {
					rule.Exec = "$" + newPlugin("aok", 0)
					break
				}
				j := cands[r.Choose(len(cands))]
				if depth[j]+1 > depth[si] {
					depth[si] = depth[j] + 1
				}
				if k == 15 {
					rule.Exec = fmt.Sprintf("$s%d", j)
				} else if k == 12 {
					rule.Exec = fmt.Sprintf("jump s%d", j)
				} else {
					rule.Exec = fmt.Sprintf("goto s%d", j)
				}
			}
			rules = append(rules, rule)
		}
		p.Seqs = append(p.Seqs, rules)
	}
	p.Entry = nseq - 1
	return p
}

// ---- reference interpreter (written from the statement, not from chain.go) ----

type c06ref struct {
	p    *c06prog
	runs *c06runs
	steps int
}

type c06cont struct {
	seq  int
	pos  int
	back *c06cont // where to resume after the end of this sequence / on return
}

type c06q struct {
	run  string
	resp int
}

var errC06Budget = errors.New("reference interpreter step budget exceeded")

func (ri *c06ref) evalMatch(m string, q *c06q) (bool, error) {
	m = strings.TrimSpace(m)
	neg := false
	if strings.HasPrefix(m, "!") {
		neg = true
		m = strings.TrimSpace(m[1:])
	}
	run := ri.runs.get(q.run)
	var res bool
	if strings.HasPrefix(m, "$") {
		tag, arg, _ := strings.Cut(m[1:], " ")
		pl := ri.p.Plugins[tag]
		switch pl.Kind {
		case "mq":
			arg = strings.TrimSpace(arg)
			run.Trace = append(run.Trace, pl.Tag+"("+arg+")")
			switch arg {
			case "t":
				res = true
			case "f":
				res = false
			default:
				return false, errors.New("err:" + pl.Tag)
			}
		case "mt":
			run.Trace = append(run.Trace, pl.Tag+"=T")
			res = true
		case "mf":
			run.Trace = append(run.Trace, pl.Tag+"=F")
			res = false
		case "me":
			run.Trace = append(run.Trace, pl.Tag+"=E")
			return false, errors.New("err:" + pl.Tag)
		case "hasr":
			res = q.resp != 0
			run.Trace = append(run.Trace, fmt.Sprintf("%s=%v", pl.Tag, res))
		}
	} else if m == "_true" {
		res = true
	} else if m == "_false" {
		res = false
	} else {
		panic("bad matcher text " + m)
	}
	if neg {
		res = !res
	}
	return res, nil
}

// exec runs the continuation c on q: "visits rules in order ..."
func (ri *c06ref) exec(c *c06cont, q *c06q) error {
	for {
		ri.steps++
		if ri.steps > 200000 {
			return errC06Budget
		}
		if c == nil {
			return nil // end of the top level
		}
		rules := ri.p.Seqs[c.seq]
		if c.pos >= len(rules) {
			c = c.back // end of a sequence: resume after the calling jump (or end)
			continue
		}
		rule := rules[c.pos]
		rest := &c06cont{seq: c.seq, pos: c.pos + 1, back: c.back}
		matched := true
		for _, m := range rule.Matches {
			ok, err := ri.evalMatch(m, q)
			if err != nil {
				return err
			}
			if !ok {
				matched = false
				break
			}
		}
		if !matched {
			c = rest
			continue
		}
		f := strings.Fields(rule.Exec)
		switch f[0] {
		case "accept":
			return nil
		case "reject":
			rcode := 5
			if len(f) > 1 {
				fmt.Sscan(f[1], &rcode)
			}
			q.resp = -1 - rcode
			return nil
		case "return":
			c = c.back
			continue
		case "jump":
			var j int
			fmt.Sscanf(f[1], "s%d", &j)
			c = &c06cont{seq: j, pos: 0, back: rest}
			continue
		case "goto":
			var j int
			fmt.Sscanf(f[1], "s%d", &j)
			c = &c06cont{seq: j, pos: 0, back: nil}
			continue
		}
		if pl0 := ri.p.Plugins[f[0][1:]]; pl0 == nil {
			// "$sJ": a sequence used as a plain action. It runs on its own (its
			// accept / reject / return / end and the continuations of its wrapping
			// plugins stay inside it), an error aborts everything, and the
			// caller goes on with its next rule.
			var j int
			if _, err := fmt.Sscanf(f[0], "$s%d", &j); err != nil {
				panic("bad exec " + rule.Exec)
			}
			if err := ri.exec(&c06cont{seq: j, pos: 0, back: nil}, q); err != nil {
				return err
			}
			c = rest
			continue
		}
		pl := ri.p.Plugins[f[0][1:]]
		run := ri.runs.get(q.run)
		run.Trace = append(run.Trace, pl.Tag)
		switch pl.Kind {
		case "aok":
		case "aerr":
			return errors.New("err:" + pl.Tag)
		case "setr":
			q.resp = pl.N
		case "dropr":
			q.resp = 0
		case "wstop":
			return nil
		case "wcont":
			c = rest
			continue
		case "wpost":
			err := ri.exec(rest, q)
			run.Trace = append(run.Trace, pl.Tag+":post")
			return err
		case "wlate":
			sub := fmt.Sprintf("%s/%s.%d#late", q.run, pl.Tag, run.inv(pl.Tag))
			cq := &c06q{run: sub, resp: q.resp}
			ri.runs.get(sub)
			ri.runs.get(sub).Err = ri.exec(rest, cq)
			ri.runs.get(sub).Resp = cq.resp
			c = rest
			continue
		case "wseq":
			var first error
			k := run.inv(pl.Tag)
			for i := 0; i < pl.N; i++ {
				sub := fmt.Sprintf("%s/%s.%d#%d", q.run, pl.Tag, k, i)
				ri.runs.get(sub)
				saved := q.run
				q.run = sub
				err := ri.exec(rest, q)
				q.run = saved
				ri.runs.get(sub).Resp = q.resp
				if err != nil && first == nil {
					first = err
				}
			}
			return first
		case "wpar":
			var first error
			k := run.inv(pl.Tag)
			for i := 0; i < pl.N; i++ {
				sub := fmt.Sprintf("%s/%s.%d#%d", q.run, pl.Tag, k, i)
				ri.runs.get(sub)
				cq := &c06q{run: sub, resp: q.resp}
				err := ri.exec(rest, cq)
				ri.runs.get(sub).Resp = cq.resp
				if err != nil && first == nil {
					first = err
				}
			}
			return first
		}
		if pl.Kind == "aok" || pl.Kind == "setr" || pl.Kind == "dropr" {
			c = rest
			continue
		}
		return nil
	}
}

// ---- scenario ----

type c06cfg struct {
	prog *c06prog
}

func c06Setup(rc *RunCtx) simrt.Config {
	r := rc.R
	cfg, sname := drawSimConfig(r, 200000)
	cfg.TraceLimit = 3000
	c := &c06cfg{prog: c06Gen(r)}
	nr := 0
	for _, s := range c.prog.Seqs {
		nr += len(s)
	}
	rc.Cfg["strategy"] = sname
	rc.Cfg["kind"] = "sequence"
	rc.Cfg["sequences"] = len(c.prog.Seqs)
	rc.Cfg["rules"] = nr
	rc.Cfg["plugins"] = len(c.prog.Plugins)
	rc.priv = c
	return cfg
}

func c06Main(rc *RunCtx) {
	c := rc.priv.(*c06cfg)
	p := c.prog
	// reference first (bounded): programs whose k-fold continuations explode are skipped
	nq := 1 + simrt.Choose(2) // one or two queries run through the same sequences concurrently
	refRuns := &c06runs{m: map[string]*c06run{}}
	ref := &c06ref{p: p, runs: refRuns}
	refErrs := make([]error, nq)
	for qi := 0; qi < nq; qi++ {
		top := fmt.Sprintf("top%d", qi)
		rq := &c06q{run: top}
		refRuns.get(top)
		refErrs[qi] = ref.exec(&c06cont{seq: p.Entry}, rq)
		if refErrs[qi] == errC06Budget || len(refRuns.ord) > 400 {
			rc.Inconcl = "program too large (continuation fan-out)"
			return
		}
		refRuns.get(top).Resp = rq.resp
	}

	// real execution
	realRuns := &c06runs{m: map[string]*c06run{}}
	reg := map[string]any{}
	for tag, pl := range p.Plugins {
		tr := &c06tracer{p: pl, rc: rc, runs: realRuns}
		switch pl.Kind[0] {
		case 'm', 'h':
			if pl.Kind == "mq" {
				reg[tag] = c06qmatch{tr}
			} else {
				reg[tag] = tr
			}
		case 'w':
			reg[tag] = c06wrap{tr}
		default:
			reg[tag] = c06plain{tr}
		}
	}
	m := coremain.NewTestMosdnsWithPlugins(reg)
	var seqs []*sequence.Sequence
	for si, rules := range p.Seqs {
		var ra []sequence.RuleArgs
		for _, r := range rules {
			ra = append(ra, sequence.RuleArgs{Matches: r.Matches, Exec: r.Exec})
		}
		s, err := sequence.NewSequence(sequence.NewBQ(m, zap.NewNop()), ra)
		if err != nil {
			rc.Fail("sequence_rejected", "NewSequence refused generated rules of s%d: %v", si, err)
			return
		}
		reg[fmt.Sprintf("s%d", si)] = s
		seqs = append(seqs, s)
	}
	errs := make([]error, nq)
	qdone := make(chan int, nq)
	for qi := 0; qi < nq; qi++ {
		qi := qi
		top := fmt.Sprintf("top%d", qi)
		realRuns.get(top)
		simrt.GoNamed("query:"+top, func() {
			q := mkQuery("seq.test.", dns.TypeA, uint16(7+qi))
			qCtx := query_context.NewContext(q)
			qCtx.StoreValue(c06runKey, top)
			errs[qi] = seqs[p.Entry].Exec(context.Background(), qCtx)
			realRuns.get(top).Resp = respMarker(qCtx)
			simrt.Send(0, qdone, qi)
		})
	}
	for qi := 0; qi < nq; qi++ {
		simrt.Recv(0, qdone)
	}
	for i := 0; i < 1000 && realRuns.pending > 0; i++ {
		simrt.Sleep(0, time.Millisecond) // late continuations
	}

	// compare
	es := func(e error) string {
		if e == nil {
			return "<nil>"
		}
		return e.Error()
	}
	var refErr error
	for qi := 0; qi < nq; qi++ {
		if es(errs[qi]) != es(refErrs[qi]) {
			// with concurrent continuations the first error in run-index order is reported by both
			rc.Fail("error_differs", "query %d: sequence returned %s, the reference interpreter %s\n%s", qi, es(errs[qi]), es(refErrs[qi]), c06Text(p))
			return
		}
		if refErrs[qi] != nil {
			refErr = refErrs[qi]
		}
	}
	for _, id := range refRuns.ord {
		want := refRuns.m[id]
		got := realRuns.m[id]
		if got == nil {
			rc.Fail("continuation_run_missing", "continuation run %s did not happen\n%s", id, c06Text(p))
			return
		}
		if strings.Join(got.Trace, " ") != strings.Join(want.Trace, " ") {
			rc.Fail("trace_differs", "run %s:\n real: %s\n want: %s\n%s", id, strings.Join(got.Trace, " "), strings.Join(want.Trace, " "), c06Text(p))
			return
		}
		if es(got.Err) != es(want.Err) {
			rc.Fail("error_differs", "late continuation %s returned %s, reference %s\n%s", id, es(got.Err), es(want.Err), c06Text(p))
			return
		}
		if got.Resp != want.Resp {
			rc.Fail("final_response_differs", "run %s: final response marker %d, reference %d\n%s", id, got.Resp, want.Resp, c06Text(p))
			return
		}
	}
	for _, id := range realRuns.ord {
		if refRuns.m[id] == nil {
			rc.Fail("unexpected_continuation_run", "continuation run %s happened but the reference has none\n%s", id, c06Text(p))
			return
		}
	}
	if len(refRuns.ord) > 1 {
		simrt.Probe("c06.multi_continuation")
	}
	if refErr != nil {
		simrt.Probe("c06.error_abort")
	}
	for _, pl := range p.Plugins {
		if pl.Kind == "wpar" {
			simrt.Probe("c06.has_concurrent_wrapper")
			break
		}
	}
	for id := range refRuns.m {
		if strings.HasSuffix(id, "#late") {
			simrt.Probe("c06.late_continuation_ran")
			break
		}
	}
	if nq > 1 {
		simrt.Probe("c06.two_queries")
	}
}

func c06Text(p *c06prog) string {
	var sb strings.Builder
	for i, s := range p.Seqs {
		fmt.Fprintf(&sb, "s%d:", i)
		for _, r := range s {
			fmt.Fprintf(&sb, " {%s -> %s}", strings.Join(r.Matches, " & "), r.Exec)
		}
		sb.WriteString("\n")
	}
	fmt.Fprintf(&sb, "entry s%d", p.Entry)
	return sb.String()
}

func c06Post(rc *RunCtx, res simrt.Result) {
	if res.End != simrt.EndClean && rc.Viol == nil && rc.Inconcl == "" {
		rc.Inconcl = "run did not end cleanly: " + res.End.String()
	}
}
