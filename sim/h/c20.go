package h

import (
	"context"
	"errors"
	"fmt"
	"time"

	"github.com/IrineSistiana/mosdns/v5/pkg/query_context"
	"github.com/IrineSistiana/mosdns/v5/plugin/executable/sequence/fallback"
	"github.com/miekg/dns"
	"verif/sim/simrt"
)

// C20 — fallback prefers the primary and fails over only when it should.
//
// Real fallback plugin over two scripted executables (outcome in {answer, no
// answer, error}, completion instant relative to the threshold, obeying their
// context), always_standby on/off, thresholds incl. the default, caller
// deadline/cancel. The interesting instants (between the primary's "done"
// signal and its send, between the secondary's wake-up and its send, timer vs.
// signal) are ordinary preemption points of the instrumented code.

func init() {
	Scenarios["C20"] = &Scenario{Setup: c20Setup, Main: c20Main, Post: c20Post}
}

const (
	foAnswer = iota
	foNone
	foError
	foNever
	foErrorWithResp // sets a response and then fails (e.g. forward ok, a later step of the sub-sequence errors)
)

var foNames = []string{"answer", "no-answer", "error", "never", "error-after-setting-a-response"}

type c20side struct {
	SawResp bool // a response was present in the worker's query context on entry
	Outcome int
	Delay   time.Duration
	Invoked bool
	StartAt time.Duration
	EndAt   time.Duration
	Ended   bool
	CtxErr  bool
}

type c20cfg struct {
	thrMs   int
	standby bool
	calls   int
}

type c20call struct {
	p, s    c20side
	t0, tr  time.Duration
	tc      time.Duration // caller ctx end, -1 none
	ctxKind string
	err     error
	who     string // "p", "s", ""
}

func c20Setup(rc *RunCtx) simrt.Config {
	r := rc.R
	cfg, sname := drawSimConfig(r, 30000)
	c := &c20cfg{}
	c.thrMs = []int{0, 100, 1000}[r.Choose(3)]
	c.standby = r.Choose(2) == 0
	c.calls = 1 + r.Choose(3)
	rc.Cfg["strategy"] = sname
	rc.Cfg["kind"] = "fallback"
	rc.Cfg["threshold_ms"] = c.thrMs
	rc.Cfg["always_standby"] = c.standby
	rc.Cfg["calls"] = c.calls
	rc.priv = c
	return cfg
}

func c20Exec(side *c20side, who string) execFunc {
	return func(ctx context.Context, qc *query_context.Context) error {
		side.Invoked = true
		side.StartAt = simrt.S.Elapsed()
		if qc.R() != nil {
			// the caller's context is fresh when Exec is called: a worker that finds a
			// response on entry works on state the caller produced after the call
			side.SawResp = true
		}
		defer func() { side.EndAt = simrt.S.Elapsed(); side.Ended = true }()
		if side.Outcome == foNever {
			simrt.Recv(0, ctx.Done())
			side.CtxErr = true
			return context.Cause(ctx)
		}
		if side.Delay > 0 {
			tm := time.NewTimer(side.Delay)
			i := simrt.Select(0, false, simrt.R(tm.C, nil, nil), simrt.R(ctx.Done(), nil, nil))
			tm.Stop()
			if i == 1 {
				side.CtxErr = true
				return context.Cause(ctx)
			}
		}
		switch side.Outcome {
		case foError:
			return errors.New("scripted " + who + " error")
		case foNone:
			return nil
		}
		r := new(dns.Msg)
		r.SetReply(qc.Q())
		r.Answer = append(r.Answer, &dns.TXT{Hdr: dns.RR_Header{Name: qc.QQuestion().Name, Rrtype: dns.TypeTXT, Class: 1, Ttl: 60}, Txt: []string{"from=" + who}})
		qc.SetResponse(r)
		if side.Outcome == foErrorWithResp {
			return errors.New("scripted " + who + " error after setting a response")
		}
		return nil
	}
}

func c20Main(rc *RunCtx) {
	c := rc.priv.(*c20cfg)
	T := time.Duration(c.thrMs) * time.Millisecond
	if T <= 0 {
		T = 500 * time.Millisecond
	}
	delays := []time.Duration{0, time.Millisecond, T / 2, T - time.Nanosecond, T, T + time.Nanosecond, T + time.Millisecond, 2 * T, 3 * T}
	// Calls start back to back, overlapping, or far apart: a later call may draw
	// the pooled threshold timer of an earlier one whose workers are still around.
	type pend struct {
		cl           *c20call
		qCtx         *query_context.Context
		respAtReturn *dns.Msg
		q            *dns.Msg
	}
	var pends []*pend
	done := make(chan struct{}, 8)
	gaps := []time.Duration{0, 0, time.Millisecond, T / 2, T, 2 * T, 12 * time.Second}
	for i := 0; i < c.calls && rc.Viol == nil; i++ {
		i := i
		cl := &c20call{tc: -1, ctxKind: "none"}
		cl.p.Outcome = simrt.S.Rng().Weighted(5, 2, 2, 1, 1)
		cl.s.Outcome = simrt.S.Rng().Weighted(5, 2, 2, 1, 1)
		cl.p.Delay = delays[simrt.Choose(len(delays))]
		cl.s.Delay = delays[simrt.Choose(len(delays))]
		pd := &pend{cl: cl}
		pends = append(pends, pd)
		wait := i > 0 && simrt.Choose(2) == 0 // wait for the previous call to return first
		if i > 0 {
			if wait {
				simrt.Recv(0, done)
				done <- struct{}{}
			}
			if g := gaps[simrt.Choose(len(gaps))]; g > 0 {
				simrt.Sleep(0, g)
			}
		}
		simrt.GoNamed(fmt.Sprintf("call%d", i), func() {
			defer simrt.Send(0, done, struct{}{})
			fb := fallback.NewFallbackForVerif(c20Exec(&cl.p, "p"), c20Exec(&cl.s, "s"), c.thrMs, c.standby)
			q := mkQuery(fmt.Sprintf("f%d.test.", i), dns.TypeA, uint16(simrt.Choose(65536)))
			qCtx := query_context.NewContext(q)
			pd.q, pd.qCtx = q, qCtx
			ctx := context.Background()
			var cancel context.CancelFunc
			cl.t0 = simrt.S.Elapsed()
			switch simrt.Choose(5) {
			case 0:
				d := delays[simrt.Choose(len(delays))] + time.Duration(simrt.Choose(2))*T
				ctx, cancel = context.WithTimeout(ctx, d)
				cl.tc, cl.ctxKind = cl.t0+d, "deadline"
			case 1:
				d := delays[simrt.Choose(len(delays))]
				ctx, cancel = context.WithCancel(ctx)
				cl.tc, cl.ctxKind = cl.t0+d, "cancel"
				cf := cancel
				simrt.GoNamed("cancel", func() {
					simrt.Sleep(0, d)
					simrt.Fault("ctx_cancel")
					cf()
				}).Daemon = true
			}
			err := fb.Exec(ctx, qCtx)
			cl.tr = simrt.S.Elapsed()
			cl.err = err
			if err == nil {
				if r := qCtx.R(); r != nil {
					for _, rr := range r.Answer {
						if t, ok := rr.(*dns.TXT); ok && len(t.Txt) == 1 && len(t.Txt[0]) == 6 {
							cl.who = t.Txt[0][5:]
						}
					}
					if r.Id != q.Id {
						rc.Fail("wrong_id", "reply ID %d for query %d", r.Id, q.Id)
					}
				}
			}
			if err != nil && simrt.Choose(2) == 0 {
				// the call failed: the caller goes on with its query context, as the
				// server does when it answers SERVFAIL (workers may still be running)
				m := new(dns.Msg)
				m.SetRcode(q, dns.RcodeServerFailure)
				qCtx.SetResponse(m)
			}
			pd.respAtReturn = qCtx.R()
			if cancel != nil {
				// the caller's context ends when the caller is done with the call
				// (as the server's per-query context does), not at the end of the run
				cancel()
			}
		})
	}
	for range pends {
		simrt.Recv(0, done)
	}
	// let every worker finish before judging (they run on their own deadline)
	simrt.Sleep(0, 12*time.Second)
	for _, pd := range pends {
		if rc.Viol != nil {
			break
		}
		cl := pd.cl
		if later := pd.qCtx.R(); later != pd.respAtReturn {
			whoLater := "<none>"
			if later != nil {
				for _, rr := range later.Answer {
					if t, ok := rr.(*dns.TXT); ok && len(t.Txt) == 1 && len(t.Txt[0]) == 6 {
						whoLater = t.Txt[0][5:]
					}
				}
			}
			rc.Fail("response_changed_after_return", "Exec returned (from=%q err=%v) and later the caller's query context holds the answer from=%q: a worker wrote to the caller's context after the call ended", cl.who, cl.err, whoLater)
			break
		}
		if cl.p.SawResp || cl.s.SawResp {
			rc.Fail("worker_started_on_callers_later_state", "a worker (primary=%v secondary=%v) found a response in its query context on entry: its copy was taken after Exec had returned (err=%v) and the caller had gone on with the context", cl.p.SawResp, cl.s.SawResp, cl.err)
			break
		}
		c20Check(rc, c, cl, T)
	}
}

func c20Check(rc *RunCtx, c *c20cfg, cl *c20call, T time.Duration) {
	tT := cl.t0 + T
	workerDdl := func(start time.Duration) time.Duration {
		if cl.ctxKind == "deadline" {
			return cl.tc
		}
		return start + 5*time.Second
	}
	// primary
	tp := cl.t0 + cl.p.Delay
	op := cl.p.Outcome
	if op == foErrorWithResp {
		op = foError // an error is a failure, whatever was left in the context
	}
	if d := workerDdl(cl.t0); op == foNever || tp > d {
		tp, op = d, foError
	} else if tp == d && op == foAnswer {
		op = -1 // tie between completion and its deadline
	}
	desc := func() string {
		return fmt.Sprintf("threshold=%v standby=%v primary{%s after %v} secondary{%s after %v invoked=%v} ctx=%s@%v result{from=%q err=%v at +%v}",
			T, c.standby, foNames[cl.p.Outcome], cl.p.Delay, foNames[cl.s.Outcome], cl.s.Delay, cl.s.Invoked, cl.ctxKind, cl.tc-cl.t0, cl.who, cl.err, cl.tr-cl.t0)
	}
	if cl.tc >= 0 && cl.tr > cl.tc {
		rc.Fail("call_outlives_context", "the caller's context ended at +%v but Exec returned at +%v: %s", cl.tc-cl.t0, cl.tr-cl.t0, desc())
		return
	}
	ctxFirst := func(at time.Duration) bool { return cl.tc >= 0 && cl.tc <= at }
	if op == -1 {
		return
	}
	if op == foAnswer && tp < tT {
		// primary answers within the threshold
		simrt.Probe("c20.primary_in_time")
		if ctxFirst(tp) {
			if cl.err != nil || (cl.tc == tp && cl.who == "p") {
				return
			}
			rc.Fail("result_after_context_end", "%s", desc())
			return
		}
		if cl.who != "p" || cl.err != nil {
			rc.Fail("primary_answer_not_used", "the primary answered within the threshold but the result is from=%q err=%v: %s", cl.who, cl.err, desc())
			return
		}
		if !c.standby && cl.s.Invoked {
			rc.Fail("secondary_started_needlessly", "always_standby is off and the primary answered within the threshold, yet the secondary was executed: %s", desc())
			return
		}
		if cl.tr != tp {
			rc.Fail("return_time_wrong", "primary answered at +%v, Exec returned at +%v: %s", tp-cl.t0, cl.tr-cl.t0, desc())
		}
		return
	}
	if op == foAnswer && tp == tT {
		simrt.Probe("c20.tie_at_threshold")
		return // exactly at the threshold: tie, either behaviour
	}
	// primary failed, or is slower than the threshold
	simrt.Probe("c20.failover")
	primFailAt := time.Duration(-1)
	if op != foAnswer {
		primFailAt = tp
	}
	release := tT // when the secondary may start (no standby) / release its answer (standby)
	if primFailAt >= 0 && primFailAt < release {
		release = primFailAt
	}
	var ts time.Duration
	if c.standby {
		ts = cl.t0
	} else {
		ts = release
	}
	tsC := ts + cl.s.Delay
	os := cl.s.Outcome
	if os == foErrorWithResp {
		os = foError
	}
	if d := workerDdl(ts); os == foNever || tsC > d {
		tsC, os = d, foError
	} else if tsC == d && os == foAnswer {
		return // tie with its deadline
	}
	availS := time.Duration(-1)
	if os == foAnswer {
		availS = tsC
		if c.standby && availS < release {
			availS = release
		}
	}
	availP := time.Duration(-1)
	if op == foAnswer {
		availP = tp
	}
	first := time.Duration(-1)
	for _, a := range []time.Duration{availP, availS} {
		if a >= 0 && (first < 0 || a < first) {
			first = a
		}
	}
	if primFailAt >= 0 && primFailAt == tT || tsC == release && c.standby {
		// signal/timer ties make the release instant ambiguous by a scheduling step only, not in time
	}
	if first < 0 {
		// both fail
		bothDone := tp
		if tsC > bothDone {
			bothDone = tsC
		}
		if ctxFirst(bothDone) {
			if cl.err == nil {
				rc.Fail("answer_from_nowhere", "both workers fail but an answer was returned: %s", desc())
			}
			return
		}
		if cl.err == nil {
			rc.Fail("answer_from_nowhere", "both workers fail but an answer was returned: %s", desc())
			return
		}
		simrt.Probe("c20.both_failed")
		if cl.tr != bothDone {
			rc.Fail("return_time_wrong", "both workers had failed by +%v, Exec returned at +%v: %s", bothDone-cl.t0, cl.tr-cl.t0, desc())
		}
		return
	}
	if ctxFirst(first) {
		if cl.err != nil {
			return
		}
		if cl.tc == first {
			return
		}
		rc.Fail("result_after_context_end", "%s", desc())
		return
	}
	if cl.err != nil {
		rc.Fail("available_answer_not_returned", "an answer was available at +%v but Exec failed: %s", first-cl.t0, desc())
		return
	}
	okWho := (cl.who == "p" && availP == first) || (cl.who == "s" && availS == first)
	if !okWho {
		rc.Fail("not_the_first_answer", "first available answer at +%v (primary %v, secondary %v) but the result is from=%q: %s", first-cl.t0, availP-cl.t0, availS-cl.t0, cl.who, desc())
		return
	}
	if cl.tr != first {
		rc.Fail("return_time_wrong", "first answer available at +%v, Exec returned at +%v: %s", first-cl.t0, cl.tr-cl.t0, desc())
	}
}

func c20Post(rc *RunCtx, res simrt.Result) {
	if res.End != simrt.EndClean && rc.Viol == nil {
		var leaked []string
		for _, l := range res.Leaked {
			if !l.Daemon && l.ID != 0 {
				leaked = append(leaked, l.GoSite+"@"+l.Site)
			}
		}
		if len(leaked) > 0 {
			rc.Fail("worker_goroutines_leaked", "fallback worker tasks never finished: %v", leaked)
		} else {
			rc.Inconcl = "run did not end cleanly: " + res.End.String()
		}
	}
}
