package h

import (
	"context"
	"errors"
	"fmt"
	"time"

	"github.com/IrineSistiana/mosdns/v5/pkg/query_context"
	cacheplug "github.com/IrineSistiana/mosdns/v5/plugin/executable/cache"
	"github.com/IrineSistiana/mosdns/v5/plugin/executable/sequence"
	"github.com/miekg/dns"
	"verif/sim/simrt"
)

// C05 — cached answers age correctly and expire on time.
//
// Real cache plugin in front of a scripted origin. The scenario is a sequence
// of phases: advance the VIRTUAL clock to an instant chosen around a boundary
// of the current entry (k s -1ns / k s / k s +1ns, lifetime +-1ns, lazy window
// +-1ns), then issue a burst of 1..8 concurrent queries. Every origin answer
// carries a unique version (SOA serial), so each cache hit is attributed to
// one stored version and compared with a reference model of the statement.

func init() {
	Scenarios["C05"] = &Scenario{Setup: c05Setup, Main: c05Main, Post: c05Post}
}

type c05ver struct {
	V       uint32
	Key     int
	Ans     *dns.Msg // as produced by the origin (without OPT)
	At      time.Duration // virtual instant the origin returned it
	Step    int
	Epoch   int
	Refresh bool
	// Reloaded: the entry went through dump -> load_dump (a restart), which keeps
	// its times to the second only
	Reloaded bool
}

type c05cfg struct {
	lazy    int // lazy_cache_ttl seconds (0 = off)
	keys    int
	phases  int
	pErr    int
	pSlow   int
	ttls    []uint32
	vers    map[uint32]*c05ver
	byKey   map[int][]*c05ver
	nver    uint32
	epoch   int
	inflightBg map[int]int
	bgTotal map[int]int
	fg      map[*query_context.Context]bool
	pRestart int // percent per phase: the cache is dumped and the dump loaded into a new instance
}

type fgMark struct{}

func c05Setup(rc *RunCtx) simrt.Config {
	r := rc.R
	cfg, sname := drawSimConfig(r, 600000)
	cfg.TraceLimit = 3000
	c := &c05cfg{vers: map[uint32]*c05ver{}, byKey: map[int][]*c05ver{}, inflightBg: map[int]int{}, bgTotal: map[int]int{}, fg: map[*query_context.Context]bool{}}
	c.lazy = []int{0, 0, 20, 400, 3000}[r.Choose(5)]
	c.keys = 1 + r.Choose(2)
	c.phases = 2 + r.Choose(widen(8, 20))
	c.pErr = []int{0, 0, 20}[r.Choose(3)]
	c.pSlow = []int{0, 30, 70}[r.Choose(3)]
	switch r.Choose(3) {
	case 0:
		c.ttls = []uint32{0, 1, 2, 3, 5}
	case 1:
		c.ttls = []uint32{1, 2, 3, 10, 29, 30, 31, 299, 300, 301}
	default:
		c.ttls = ttlPool
	}
	rc.Cfg["strategy"] = sname
	rc.Cfg["kind"] = "cache plugin"
	rc.Cfg["lazy"] = c.lazy
	rc.Cfg["keys"] = c.keys
	rc.Cfg["phases"] = c.phases
	c.pRestart = []int{0, 0, 25}[r.Choose(3)]
	rc.Cfg["p_restart"] = c.pRestart
	rc.Cfg["p_origin_err"] = c.pErr
	rc.Cfg["p_origin_slow"] = c.pSlow
	rc.priv = c
	return cfg
}

// c05Storable / c05Lifetime encode the statement.
func c05Storable(m *dns.Msg) bool {
	if m.Truncated {
		return false
	}
	switch m.Rcode {
	case dns.RcodeNameError, dns.RcodeServerFailure:
		return true
	case dns.RcodeSuccess:
		return minTTLOrZero(m) > 0
	}
	return false
}

func minTTLOrZero(m *dns.Msg) uint32 {
	has := false
	min := uint32(1<<32 - 1)
	for _, s := range [][]dns.RR{m.Answer, m.Ns, m.Extra} {
		for _, rr := range s {
			if rr.Header().Rrtype == dns.TypeOPT {
				continue
			}
			has = true
			if rr.Header().Ttl < min {
				min = rr.Header().Ttl
			}
		}
	}
	if !has {
		return 0
	}
	return min
}

// upper bound of the lifetime in seconds, and whether it is exact
func c05Lifetime(m *dns.Msg) (secs uint64) {
	switch m.Rcode {
	case dns.RcodeNameError:
		return 30
	case dns.RcodeServerFailure:
		return 5
	}
	mt := uint64(minTTLOrZero(m))
	if len(m.Answer) == 0 && mt > 300 {
		return 300
	}
	return mt
}

func c05Version(m *dns.Msg) (uint32, bool) {
	for _, rr := range m.Ns {
		if s, ok := rr.(*dns.SOA); ok && s.Mbox == "ver.test." {
			return s.Serial, true
		}
	}
	return 0, false
}

func c05Main(rc *RunCtx) {
	c := rc.priv.(*c05cfg)
	cp := cacheplug.NewCache(&cacheplug.Args{Size: 4096, LazyCacheTTL: c.lazy}, cacheplug.Opts{})
	origin := execFunc(func(ctx context.Context, qc *query_context.Context) error {
		if qc.R() != nil {
			return nil // a cache hit passes through
		}
		var key int
		fmt.Sscanf(qc.QQuestion().Name, "k%d.", &key)
		bg := !c.fg[qc] // the refresh runs on a copy of the query context
		if bg {
			c.inflightBg[key]++
			c.bgTotal[key]++
			simrt.Probe("c05.background_refresh")
			if c.inflightBg[key] > 1 {
				rc.Fail("concurrent_refreshes", "%d background refreshes in flight for key k%d at t=%v", c.inflightBg[key], key, simrt.S.Elapsed())
			}
			defer func() { c.inflightBg[key]-- }()
		}
		if simrt.Choose(100) < c.pSlow {
			// a slow origin that honours its context
			d := []time.Duration{time.Millisecond, 100 * time.Millisecond, 2 * time.Second, 6 * time.Second}[simrt.Choose(4)]
			tm := time.NewTimer(d)
			simrt.Select(0, false, simrt.R(tm.C, nil, nil), simrt.R(ctx.Done(), nil, nil))
			tm.Stop()
		}
		if err := ctx.Err(); err != nil {
			if bg && errors.Is(err, context.Canceled) {
				// the refresh must outlive the request that triggered it: only its own
				// timeout may end it
				rc.Fail("background_refresh_cancelled", "the background refresh for key k%d was cancelled (%v) at t=%v although its 5 s budget had not run out: it is tied to the triggering request", key, err, simrt.S.Elapsed())
			}
			return err
		}
		if simrt.Choose(100) < c.pErr {
			simrt.Fault("origin_error")
			return errors.New("origin failed")
		}
		ans := genAnswer(rc.R, qc.Q(), c.ttls, true)
		ans.Ns = nil
		c.nver++
		if simrt.Choose(12) != 0 { // sometimes an answer without any record
			ans.Ns = append(ans.Ns, &dns.SOA{Hdr: dns.RR_Header{Name: "test.", Rrtype: dns.TypeSOA, Class: dns.ClassINET, Ttl: c.ttls[simrt.Choose(len(c.ttls))]},
				Ns: "ns.test.", Mbox: "ver.test.", Serial: c.nver, Refresh: 1, Retry: 1, Expire: 1, Minttl: 1})
		} else {
			// record-less answer: no place for the marker, so only in the form
			// that must never be stored (NOERROR without any TTL)
			ans.Answer, ans.Extra = nil, nil
			ans.Rcode = dns.RcodeSuccess
		}
		if simrt.Choose(10) == 0 {
			ans.Truncated = true
		}
		if simrt.Choose(12) == 0 {
			// 12-bit rcodes (their low nibble looks like NOERROR / SERVFAIL / NXDOMAIN)
			ans.Rcode = []int{16, 18, 19, 23, 32, 4095}[simrt.Choose(6)]
			simrt.Fault("origin_extended_rcode")
		}
		v := &c05ver{V: c.nver, Key: key, Ans: ans.Copy(), At: simrt.S.Elapsed(), Step: simrt.S.Steps(), Epoch: c.epoch, Refresh: bg}
		c.vers[v.V] = v
		c.byKey[key] = append(c.byKey[key], v)
		if simrt.Choose(3) == 0 {
			o := new(dns.OPT)
			o.Hdr.Name, o.Hdr.Rrtype = ".", dns.TypeOPT
			o.SetUDPSize(1232)
			o.Hdr.Ttl = 0x00008000 // DO bit: must never be touched by TTL arithmetic
			ans.Extra = append(ans.Extra, o)
		}
		qc.SetResponse(ans)
		return nil
	})
	walker := walkerOf(origin)
	start := time.Now()
	for ph := 0; ph < c.phases && rc.Viol == nil; ph++ {
		c.epoch++
		if ph > 0 && simrt.Choose(100) < c.pRestart {
			// restart: what clients are served must not change (to the second)
			b, code := apiDump(cp)
			if code != 200 {
				rc.Fail("dump_failed", "GET /dump returned %d", code)
				break
			}
			cp2 := cacheplug.NewCache(&cacheplug.Args{Size: 4096, LazyCacheTTL: c.lazy}, cacheplug.Opts{})
			if code := apiLoad(cp2, b); code != 200 {
				rc.Fail("load_dump_failed", "POST /load_dump of the dump just taken returned %d", code)
				break
			}
			cp.Close()
			cp = cp2
			for _, v := range c.vers {
				v.Reloaded = true
			}
			simrt.Fault("restart_via_dump")
		}
		key := simrt.Choose(c.keys)
		// choose the instant of this phase around a boundary of the newest version of this key
		if vs := c.byKey[key]; len(vs) > 0 {
			v := vs[len(vs)-1]
			life := time.Duration(c05Lifetime(v.Ans)) * time.Second
			var target time.Duration
			eps := []time.Duration{-time.Nanosecond, 0, time.Nanosecond}[simrt.Choose(3)]
			switch simrt.Choose(5) {
			case 0:
				target = v.At + time.Duration(simrt.Choose(4))*time.Second + eps
			case 1:
				target = v.At + life + eps
			case 2:
				target = v.At + life/2 + eps
			case 3:
				target = v.At + time.Duration(c.lazy)*time.Second + eps
			default:
				target = simrt.S.Elapsed() + time.Duration(simrt.Choose(3000))*time.Millisecond
			}
			if d := target - simrt.S.Elapsed(); d > 0 && d < 100*time.Hour {
				simrt.Sleep(0, d)
			}
		}
		burst := []int{1, 1, 1, 2, 4, 8}[simrt.Choose(6)]
		done := make(chan struct{}, burst)
		for b := 0; b < burst; b++ {
			id := uint16(simrt.Choose(65536))
			simrt.GoNamed(fmt.Sprintf("q%d.%d", ph, b), func() {
				c05Query(rc, c, cp, walker, key, id)
				simrt.Send(0, done, struct{}{})
			})
		}
		for b := 0; b < burst; b++ {
			simrt.Recv(0, done)
		}
		// let background refreshes of this phase finish before the next epoch
		simrt.Sleep(0, 7*time.Second)
	}
	_ = start
	cp.Close()
}

func c05Query(rc *RunCtx, c *c05cfg, cp *cacheplug.Cache, walker sequence.ChainWalker, key int, id uint16) {
	q := mkQuery(fmt.Sprintf("k%d.test.", key), dns.TypeA, id)
	qCtx := query_context.NewContext(q)
	// like the server: the request context is released as soon as the reply is out
	ctx, release := context.WithCancel(context.WithValue(context.Background(), fgMark{}, true))
	defer release()
	c.fg[qCtx] = true
	nverBefore := c.nver
	t0 := simrt.S.Elapsed()
	step0 := simrt.S.Steps()
	bg0 := c.bgTotal[key]
	err := cp.Exec(ctx, qCtx, walker)
	_ = err
	r := qCtx.R()
	if r == nil {
		simrt.Probe("c05.no_answer")
		return
	}
	// What the server does with the response it got back, in place, after the cache
	// is done with it (UDP truncation): must not reach the cache's own copy. The
	// checks below work on a snapshot taken first.
	snap := r.Copy()
	if simrt.Choose(3) == 0 && len(r.Answer) > 1 {
		r.Truncated = true
		r.Answer = r.Answer[:len(r.Answer)/2]
		r.Ns, r.Extra = nil, nil
		simrt.Fault("server_truncates_response_in_place")
	}
	r = snap
	v, ok := c05Version(r)
	if !ok {
		// an answer without our marker: either the record-less origin answer passed through (miss) or garbage from cache
		for _, x := range c.byKey[key] {
			if x.V > nverBefore && len(x.Ans.Ns) == 0 {
				return // produced for this query (or a concurrent one), not served from cache
			}
		}
		rc.Fail("unidentified_answer_served", "key k%d: answer without version marker: %s", key, r.String())
		return
	}
	ver := c.vers[v]
	if ver == nil {
		rc.Fail("unknown_version_served", "key k%d: version %d was never produced", key, v)
		return
	}
	if ver.Key != key {
		rc.Fail("foreign_key_served", "key k%d got version %d of key k%d", key, v, ver.Key)
		return
	}
	if r.Id != id {
		rc.Fail("wrong_id_on_hit", "key k%d: answer ID %d, query ID %d", key, r.Id, id)
		return
	}
	if ver.V > nverBefore && !ver.Refresh {
		simrt.Probe("c05.miss_fresh_answer")
		return // produced by the origin for a foreground miss during this query: not served from cache
	}
	// ---- served from cache ----
	simrt.Probe("c05.hit")
	if r.Truncated && !ver.Ans.Truncated {
		rc.Fail("truncated_answer_served_from_cache", "key k%d version %d: the cache served an answer with TC set (%d answer records; the stored answer had %d and no TC)", key, v, len(r.Answer), len(ver.Ans.Answer))
		return
	}
	now := simrt.S.Elapsed()
	if now != t0 {
		// the query spanned virtual time (a slow concurrent origin); the hit
		// instant is ambiguous, skip the arithmetic for this one
		simrt.Probe("c05.hit_spanning_time")
		return
	}
	if !c05Storable(ver.Ans) {
		rc.Fail("unstorable_answer_served_from_cache", "key k%d: version %d (TC=%v rcode=%d minTTL=%d) must never be stored but was served from cache",
			key, v, ver.Ans.Truncated, ver.Ans.Rcode, minTTLOrZero(ver.Ans))
		return
	}
	// candidate check: a newer version that was certainly stored before this epoch supersedes ver
	for _, x := range c.byKey[key] {
		if x.V > ver.V && x.Epoch < c.epoch && x.Epoch >= ver.Epoch && c05Storable(x.Ans) && x.Epoch > ver.Epoch {
			rc.Fail("superseded_answer_served", "key k%d: version %d served although version %d was stored in an earlier phase (t=%v)", key, v, x.V, x.At)
			return
		}
	}
	elapsed := now - ver.At
	life := time.Duration(c05Lifetime(ver.Ans)) * time.Second
	es := uint32(elapsed / time.Second)
	if ver.Reloaded {
		// whole-second dump times blur every boundary by up to a second
		near := func(a, b time.Duration) bool { d := a - b; return d > -time.Second && d < time.Second }
		if near(elapsed, life) || (c.lazy > 0 && near(elapsed, time.Duration(c.lazy)*time.Second)) {
			simrt.Probe("c05.reloaded_entry_near_a_boundary")
			return
		}
	}
	var opt int
	for _, rr := range r.Extra {
		if rr.Header().Rrtype == dns.TypeOPT {
			opt++
		}
	}
	if opt > 0 {
		rc.Fail("opt_in_cached_answer", "key k%d: cache hit carries %d OPT record(s)", key, opt)
		return
	}
	got := c05TTLs(r)
	orig := c05TTLs(ver.Ans)
	if len(got) != len(orig) {
		rc.Fail("record_count_differs", "key k%d version %d: %d records stored, %d served", key, v, len(orig), len(got))
		return
	}
	if elapsed < life {
		simrt.Probe("c05.fresh_hit")
		for i := range got {
			want := uint32(1)
			if orig[i] > es {
				want = orig[i] - es
			}
			if ver.Reloaded && got[i] != want {
				// stored time truncated to the second: one more second may have "elapsed"
				w2 := uint32(1)
				if orig[i] > es+1 {
					w2 = orig[i] - es - 1
				}
				if got[i] == w2 {
					continue
				}
			}
			if got[i] != want {
				rc.Fail("wrong_ttl_on_hit", "key k%d version %d: record %d has TTL %d after %v (stored TTL %d), expected %d", key, v, i, got[i], elapsed, orig[i], want)
				return
			}
		}
		return
	}
	// beyond its lifetime
	lazyOK := c.lazy > 0 && ver.Ans.Rcode == dns.RcodeSuccess && len(ver.Ans.Answer) > 0 && elapsed <= time.Duration(c.lazy)*time.Second // the end instant of the window is a tie
	if c.lazy > 0 && elapsed == life {
		// "live at most N s": the instant N s itself is a tie; with lazy caching on
		// the entry may still be handed out (as a stale answer) at that instant.
		lazyOK = true
		simrt.Probe("c05.boundary_instant_tie")
	}
	if !lazyOK {
		rc.Fail("expired_answer_served", "key k%d version %d (rcode %d, lifetime %v, lazy_cache_ttl %d) served %v after it was stored", key, v, ver.Ans.Rcode, life, c.lazy, elapsed)
		return
	}
	simrt.Probe("c05.stale_hit")
	for i := range got {
		if got[i] != 5 {
			rc.Fail("stale_ttl_not_5", "key k%d version %d: stale answer record %d has TTL %d", key, v, i, got[i])
			return
		}
	}
	_ = step0
	_ = bg0
}

func c05TTLs(m *dns.Msg) []uint32 {
	var t []uint32
	for _, s := range [][]dns.RR{m.Answer, m.Ns, m.Extra} {
		for _, rr := range s {
			if rr.Header().Rrtype != dns.TypeOPT {
				t = append(t, rr.Header().Ttl)
			}
		}
	}
	return t
}

func c05Post(rc *RunCtx, res simrt.Result) {
	c := rc.priv.(*c05cfg)
	// a stale hit must have led to a refresh (when lazy is on, every stale hit starts or joins one)
	_ = c
	if res.End != simrt.EndClean && rc.Viol == nil {
		rc.Inconcl = "run did not end cleanly: " + res.End.String()
	}
}
