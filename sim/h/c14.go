package h

import (
	"bytes"
	"context"
	"errors"
	"fmt"
	"strings"
	"time"

	"github.com/IrineSistiana/mosdns/v5/pkg/query_context"
	fastforward "github.com/IrineSistiana/mosdns/v5/plugin/executable/forward"
	"github.com/IrineSistiana/mosdns/v5/plugin/executable/sequence"
	"github.com/IrineSistiana/mosdns/v5/pkg/upstream"
	"github.com/miekg/dns"
	"verif/sim/simrt"
)

// C14 — forward returns the first good answer among the queried upstreams.
//
// Real Forward.exchange over scripted in-memory upstreams (outcome and
// completion instant per invocation), lists of 1..5 upstreams with tags and
// QuickConfigureExec tag subsets, concurrent in {-1,0,1,2,3,5}, caller
// cancel/deadline at chosen instants, PRNG start index and scheduling.

func init() {
	Scenarios["C14"] = &Scenario{Setup: c14Setup, Main: c14Main, Post: c14Post}
}

const (
	ocGood = iota
	ocNX
	ocServfail
	ocRefused
	ocError
	ocGarbage
	ocNever
)

var ocNames = []string{"NOERROR", "NXDOMAIN", "SERVFAIL", "REFUSED", "error", "garbage", "never"}

type c14inv struct {
	Up      int
	Call    int
	Outcome int
	Delay   time.Duration
	StartAt time.Duration
	EndAt   time.Duration // when the upstream returned to forward
	Done    bool
	Got     []byte
	Intact  bool
	CtxEnded bool // the 5 s upstream context ended first
}

type c14up struct {
	idx int
	rc  *RunCtx
	c   *c14cfg
}

type c14cfg struct {
	nUp        int
	concurrent int
	subset     []int // indexes used (nil = all)
	subsets    [][]int // every tag subset configured on this forward, in configuration order
	tags       []string
	calls      int
	invs       []*c14inv
	curCall    int
	delays     []time.Duration
	weights    []int
	results    []*c14res
}

type c14res struct {
	Call    int
	Query   []byte
	StartAt, EndAt time.Duration
	Resp    *dns.Msg
	Err     error
	CtxEnd  time.Duration // -1: none
	CtxKind string
	List    []int // upstream list of the executable used (nil = all)
}

func (u *c14up) ExchangeContext(ctx context.Context, m []byte) (*[]byte, error) {
	c := u.c
	inv := &c14inv{Up: u.idx, Call: c.curCall, StartAt: simrt.S.Elapsed(), Got: append([]byte(nil), m...)}
	inv.Outcome = simrt.S.Rng().Weighted(c.weights...)
	inv.Delay = c.delays[simrt.Choose(len(c.delays))]
	myIdx := len(c.invs)
	c.invs = append(c.invs, inv)
	defer func() {
		inv.EndAt = simrt.S.Elapsed()
		inv.Done = true
		inv.Intact = bytes.Equal(m, inv.Got)
	}()
	if inv.Outcome == ocNever {
		simrt.Recv(0, ctx.Done())
		inv.CtxEnded = true
		return nil, context.Cause(ctx)
	}
	if inv.Delay > 0 {
		tm := time.NewTimer(inv.Delay)
		i := simrt.Select(0, false, simrt.R(tm.C, nil, nil), simrt.R(ctx.Done(), nil, nil))
		tm.Stop()
		if i == 1 {
			inv.CtxEnded = true
			return nil, context.Cause(ctx)
		}
	}
	switch inv.Outcome {
	case ocError:
		// plain failures and timeout-class ones (a transport's own dial or
		// handshake timeout wraps the same sentinel errors a context produces)
		switch simrt.Choose(4) {
		case 0:
			return nil, fmt.Errorf("failed to dial: %w", context.DeadlineExceeded)
		case 1:
			return nil, fmt.Errorf("upstream gave up: %w", context.Canceled)
		}
		return nil, errors.New("scripted upstream error")
	case ocGarbage:
		b := []byte{1, 2, 3, 4, 5, 6, 7, 8, 9, 10, 11, 12, 0xc0, 0xff, 0xc0}
		return &b, nil
	}
	q := new(dns.Msg)
	if err := q.Unpack(m); err != nil {
		return nil, err
	}
	r := new(dns.Msg)
	r.SetReply(q)
	r.Rcode = []int{dns.RcodeSuccess, dns.RcodeNameError, dns.RcodeServerFailure, dns.RcodeRefused}[inv.Outcome]
	r.Answer = append(r.Answer, &dns.TXT{Hdr: dns.RR_Header{Name: q.Question[0].Name, Rrtype: dns.TypeTXT, Class: dns.ClassINET, Ttl: 60},
		Txt: []string{fmt.Sprintf("inv=%d", myIdx)}})
	b := packOrPanic(r)
	return &b, nil
}

func (u *c14up) Close() error { return nil }

func c14Setup(rc *RunCtx) simrt.Config {
	r := rc.R
	cfg, sname := drawSimConfig(r, 30000)
	c := &c14cfg{}
	c.nUp = 1 + r.Choose(5)
	c.concurrent = []int{-1, 0, 1, 2, 3, 5}[r.Choose(6)]
	for i := 0; i < c.nUp; i++ {
		c.tags = append(c.tags, fmt.Sprintf("t%d", i))
	}
	if r.Choose(3) == 0 {
		n := 1 + r.Choose(c.nUp)
		for i := 0; i < n; i++ {
			c.subset = append(c.subset, r.Choose(c.nUp))
		}
	}
	if c.subset != nil {
		// several tag subsets configured on one forward plugin ("$fwd t2", "$fwd t1 t0", ...),
		// used in any order beside the plain forward
		c.subsets = append(c.subsets, c.subset)
		for n := r.Choose(3); n > 0; n-- {
			var ss []int
			for i := 1 + r.Choose(c.nUp); i > 0; i-- {
				ss = append(ss, r.Choose(c.nUp))
			}
			c.subsets = append(c.subsets, ss)
		}
	}
	c.calls = 1 + r.Choose(3)
	if len(c.subsets) > 0 {
		c.calls = 1 + r.Choose(5)
	}
	switch r.Choose(3) {
	case 0:
		c.delays = []time.Duration{0, time.Millisecond}
	case 1:
		c.delays = []time.Duration{0, time.Millisecond, 2 * time.Millisecond, 10 * time.Millisecond, time.Second}
	default:
		c.delays = []time.Duration{time.Millisecond, 4999 * time.Millisecond, 5 * time.Second, 5001 * time.Millisecond, 8 * time.Second}
	}
	// weights of outcomes: good, nx, servfail, refused, error, garbage, never
	c.weights = [][]int{{4, 2, 2, 1, 2, 1, 1}, {1, 1, 4, 2, 4, 2, 2}, {6, 1, 1, 0, 1, 0, 0}}[r.Choose(3)]
	rc.Cfg["strategy"] = sname
	rc.Cfg["kind"] = "forward"
	rc.Cfg["upstreams"] = c.nUp
	rc.Cfg["concurrent"] = c.concurrent
	rc.Cfg["subset"] = c.subset
	rc.Cfg["subsets"] = len(c.subsets)
	rc.Cfg["calls"] = c.calls
	rc.priv = c
	return cfg
}

func c14Main(rc *RunCtx) {
	c := rc.priv.(*c14cfg)
	rc.StrictBufs = true // a reply buffer released twice would be handed to two later replies at once
	var ups []upstream.Upstream
	for i := 0; i < c.nUp; i++ {
		ups = append(ups, &c14up{idx: i, rc: rc, c: c})
	}
	f := fastforward.NewForwardForVerif(ups, c.tags, c.concurrent)
	execs := []sequence.Executable{f}
	lists := [][]int{nil}
	for _, ss := range c.subsets {
		var names []string
		for _, i := range ss {
			names = append(names, c.tags[i])
		}
		e, err := f.QuickConfigureExec(strings.Join(names, " "))
		if err != nil {
			panic(err)
		}
		execs = append(execs, e.(sequence.Executable))
		lists = append(lists, ss)
	}
	if len(c.subsets) > 0 && simrt.Choose(3) == 0 {
		e, err := f.QuickConfigureExec("") // no tags: all upstreams
		if err != nil {
			panic(err)
		}
		execs = append(execs, e.(sequence.Executable))
		lists = append(lists, nil)
	}
	for call := 0; call < c.calls && rc.Viol == nil; call++ {
		c.curCall = call
		var exec sequence.Executable = f
		var list []int
		if len(c.subsets) > 0 {
			// the first call goes to the first subset (as before); later ones to any
			xi := 1
			if call > 0 {
				xi = simrt.Choose(len(execs))
			}
			exec, list = execs[xi], lists[xi]
		}
		q := mkQuery(fmt.Sprintf("q%d.test.", call), dns.TypeA, uint16(simrt.Choose(65536)))
		if simrt.Choose(2) == 0 {
			q.SetEdns0(4096, simrt.Choose(2) == 0)
		}
		qCtx := query_context.NewContext(q)
		res := &c14res{Call: call, Query: packOrPanic(qCtx.Q()), CtxEnd: -1, CtxKind: "none", List: list}
		ctx := context.Background()
		var cancel context.CancelFunc
		switch simrt.Choose(4) {
		case 0:
			d := []time.Duration{0, time.Millisecond, 2 * time.Millisecond, time.Second, 6 * time.Second}[simrt.Choose(5)]
			ctx, cancel = context.WithTimeout(ctx, d)
			res.CtxEnd = simrt.S.Elapsed() + d
			res.CtxKind = "deadline"
		case 1:
			ctx, cancel = context.WithCancel(ctx)
			d := []time.Duration{0, time.Millisecond, 2 * time.Millisecond, time.Second}[simrt.Choose(4)]
			res.CtxEnd = simrt.S.Elapsed() + d
			res.CtxKind = "cancel"
			cf := cancel
			simrt.GoNamed("cancel", func() {
				simrt.Sleep(0, d)
				simrt.Fault("ctx_cancel")
				cf()
			}).Daemon = true
		}
		res.StartAt = simrt.S.Elapsed()
		err := exec.Exec(ctx, qCtx)
		res.EndAt = simrt.S.Elapsed()
		res.Err = err
		if err == nil {
			res.Resp = qCtx.R()
		}
		c.results = append(c.results, res)
		if cancel != nil {
			cancel()
		}
		// let the helpers of this call finish (upstream timeout) before judging it
		simrt.Sleep(0, 9*time.Second)
		c14Check(rc, c, res)
	}
}

func c14Check(rc *RunCtx, c *c14cfg, res *c14res) {
	var invs []*c14inv
	for _, iv := range c.invs {
		if iv.Call == res.Call {
			invs = append(invs, iv)
		}
	}
	// which upstreams received the query: k cyclically consecutive positions
	list := res.List
	if list == nil {
		for i := 0; i < c.nUp; i++ {
			list = append(list, i)
		}
	}
	k := c.concurrent
	if k <= 0 {
		k = 1
	}
	if k > 3 {
		k = 3
	}
	if len(invs) != k {
		rc.Fail("wrong_number_of_upstreams_queried", "concurrent=%d over %d upstreams: %d upstream exchanges were started, expected %d", c.concurrent, len(list), len(invs), k)
		return
	}
	okStart := false
	for s := 0; s < len(list) && !okStart; s++ {
		need := map[int]int{}
		for i := 0; i < k; i++ {
			need[list[(s+i)%len(list)]]++
		}
		got := map[int]int{}
		for _, iv := range invs {
			got[iv.Up]++
		}
		same := len(need) == len(got)
		for u, n := range need {
			if got[u] != n {
				same = false
			}
		}
		okStart = same
	}
	if !okStart {
		var g []int
		for _, iv := range invs {
			g = append(g, iv.Up)
		}
		rc.Fail("wrong_upstream_selection", "upstream list %v, concurrent=%d: queried %v, which is not a run of %d cyclically consecutive positions", list, c.concurrent, g, k)
		return
	}
	for _, iv := range invs {
		if !bytes.Equal(iv.Got, res.Query) {
			rc.Fail("query_bytes_altered", "upstream %d received % x, the query packs to % x", iv.Up, iv.Got, res.Query)
			return
		}
	}
	tc := res.CtxEnd
	if tc >= 0 && res.EndAt > tc {
		rc.Fail("call_outlives_context", "context ended at t=%v (%s) but forward returned at t=%v", tc, res.CtxKind, res.EndAt)
		return
	}
	// Which invocation produced the returned reply?
	ret := -1
	if res.Err == nil && res.Resp != nil {
		for _, rr := range res.Resp.Answer {
			if t, ok := rr.(*dns.TXT); ok && len(t.Txt) == 1 {
				fmt.Sscanf(t.Txt[0], "inv=%d", &ret)
			}
		}
		if ret < 0 || ret >= len(c.invs) || c.invs[ret].Call != res.Call {
			rc.Fail("foreign_reply_returned", "call %d returned a reply that none of its upstream exchanges produced (inv=%d)", res.Call, ret)
			return
		}
	}
	// Completion instants as forward saw them. An exchange "finishes" at start+delay
	// (never-answering ones at their 5 s timeout).
	type ev struct {
		iv *c14inv
		at time.Duration
		good, reply bool
	}
	var evs []ev
	for _, iv := range invs {
		at := iv.StartAt + iv.Delay
		if iv.Outcome == ocNever || iv.Delay > 5*time.Second {
			at = iv.StartAt + 5*time.Second
		}
		e := ev{iv: iv, at: at}
		timedOut := iv.Outcome == ocNever || iv.Delay >= 5*time.Second // at exactly 5 s: tie between timer and timeout
		if !timedOut || (iv.Delay == 5*time.Second && iv.Outcome != ocNever) {
			e.reply = iv.Outcome <= ocRefused
			e.good = iv.Outcome == ocGood || iv.Outcome == ocNX
		}
		evs = append(evs, e)
	}
	inCtx := func(at time.Duration) bool { return tc < 0 || at <= tc }
	var firstGood time.Duration = -1
	for _, e := range evs {
		if e.good && inCtx(e.at) && (firstGood < 0 || e.at < firstGood) {
			firstGood = e.at
		}
	}
	var last time.Duration
	for _, e := range evs {
		if e.at > last {
			last = e.at
		}
	}
	describe := func() string {
		s := ""
		for _, e := range evs {
			s += fmt.Sprintf("[up%d %s at t=%v] ", e.iv.Up, ocNames[e.iv.Outcome], e.at)
		}
		return s + fmt.Sprintf("ctx=%s@%v", res.CtxKind, tc)
	}
	tie5 := false
	for _, e := range evs {
		if e.iv.Delay == 5*time.Second && e.iv.Outcome != ocNever {
			tie5 = true
		}
	}
	if firstGood >= 0 {
		simrt.Probe("c14.good_answer_available")
		// allowed: a good reply that finished at firstGood; or the context error if the context ended at that very instant
		if res.Err != nil {
			if tc >= 0 && tc <= firstGood && errors.Is(res.Err, context.Cause(contextOf(res))) {
				return
			}
			if tc >= 0 && tc == firstGood {
				return
			}
			if tie5 {
				return
			}
			rc.Fail("good_answer_masked", "a good answer finished at t=%v within the context, but forward returned error %q at t=%v: %s", firstGood, res.Err, res.EndAt, describe())
			return
		}
		iv := c.invs[ret]
		at := iv.StartAt + iv.Delay
		if !(iv.Outcome == ocGood || iv.Outcome == ocNX) {
			// a non-good reply may only be returned as the last one to finish, which cannot precede a good one... unless it ties
			if at == last && at <= firstGood {
				return
			}
			rc.Fail("bad_answer_preferred", "returned %s from upstream %d although a good answer was available at t=%v: %s", ocNames[iv.Outcome], iv.Up, firstGood, describe())
			return
		}
		if at != firstGood && !tie5 {
			rc.Fail("later_good_answer_returned", "returned the good answer of upstream %d that finished at t=%v, the first good answer finished at t=%v: %s", iv.Up, at, firstGood, describe())
			return
		}
		if res.EndAt != at && !tie5 {
			rc.Fail("return_time_wrong", "good answer finished at t=%v but forward returned at t=%v", at, res.EndAt)
		}
		return
	}
	// no good answer within the context
	if tc >= 0 && tc <= last {
		// the context ends before (or when) the last exchange finishes
		if res.Err == nil {
			iv := c.invs[ret]
			if at := iv.StartAt + iv.Delay; at == last && tc == last {
				return // tie
			}
			rc.Fail("reply_after_context_end", "context ended at t=%v before the last exchange (t=%v) but a reply was returned: %s", tc, last, describe())
			return
		}
		simrt.Probe("c14.context_error")
		return
	}
	simrt.Probe("c14.last_outcome")
	// outcome of the last exchange to finish (ties: any of them)
	okOutcome := false
	for _, e := range evs {
		if e.at != last && !(tie5 && e.at >= 5*time.Second) {
			continue
		}
		if e.reply && res.Err == nil && ret >= 0 && c.invs[ret] == e.iv {
			okOutcome = true
		}
		if !e.reply && res.Err != nil {
			okOutcome = true
		}
	}
	if !okOutcome {
		what := fmt.Sprintf("error %q", res.Err)
		if res.Err == nil {
			what = fmt.Sprintf("the %s reply of upstream %d", ocNames[c.invs[ret].Outcome], c.invs[ret].Up)
		}
		rc.Fail("not_the_last_outcome", "no good answer; forward returned %s, which is not the outcome of the last exchange to finish (t=%v): %s", what, last, describe())
		return
	}
	if res.EndAt != last && !tie5 {
		rc.Fail("return_time_wrong", "last exchange finished at t=%v but forward returned at t=%v: %s", last, res.EndAt, describe())
	}
}

func contextOf(res *c14res) context.Context {
	ctx, cancel := context.WithCancel(context.Background())
	cancel()
	return ctx
}

func c14Post(rc *RunCtx, res simrt.Result) {
	c := rc.priv.(*c14cfg)
	if res.End != simrt.EndClean {
		if rc.Viol == nil {
			var leaked []string
			for _, l := range res.Leaked {
				if !l.Daemon && l.ID != 0 {
					leaked = append(leaked, l.GoSite+"@"+l.Site)
				}
			}
			if len(leaked) > 0 {
				rc.Fail("helper_goroutines_leaked", "forward helper tasks never finished: %v", leaked)
			} else {
				rc.Inconcl = "run did not end cleanly: " + res.End.String()
			}
		}
		return
	}
	for _, iv := range c.invs {
		if !iv.Intact {
			rc.Fail("query_buffer_changed_during_exchange", "the query bytes handed to upstream %d changed while its exchange was in progress (shared or prematurely released buffer)", iv.Up)
			return
		}
	}
	// every helper task must be gone within the 5 s upstream timeout of its call
	for _, t := range simSnapshotTasks {
		if t.Daemon || t.ID == 0 {
			continue
		}
		if !strings.Contains(t.Name, "forward/forward.go") {
			continue
		}
		var start time.Duration = -1
		for _, r := range c.results {
			if r.StartAt <= t.ExitAt {
				start = r.StartAt
			}
		}
		if start >= 0 && t.ExitAt > start+5*time.Second {
			rc.Fail("helper_outlives_upstream_timeout", "helper task %s ended %v after its call started", t.Name, t.ExitAt-start)
			return
		}
	}
}
