package h

import (
	"bytes"
	"compress/gzip"
	"context"
	"encoding/binary"
	"fmt"
	"io"
	"net/http"
	"net/http/httptest"
	"runtime"
	"sort"
	"strings"
	"time"

	cacheplug "github.com/IrineSistiana/mosdns/v5/plugin/executable/cache"
	"github.com/IrineSistiana/mosdns/v5/pkg/query_context"
	"github.com/miekg/dns"
	"google.golang.org/protobuf/encoding/protowire"
	"google.golang.org/protobuf/proto"
	"verif/sim/simdisk"
	"verif/sim/simrt"
)

// C19 — cache dumps reload faithfully; damaged dumps are harmless.
//
// A cache plugin instance A (and an identical twin A2 that is never restarted)
// is filled through Exec at several virtual instants, dumped (Close -> simdisk
// file, or GET /dump), "restarted" into a new instance B at a later instant
// (dump_file load, or POST /load_dump), and queried later still: B must serve
// exactly what the twin serves. Then EVERY prefix of the dump (small dumps) or a
// boundary-biased sample (large dumps) is loaded into an empty instance: the
// load must fail and may only add entries of the intact dump. Disk-full and
// byte-flip / arbitrary-input variants follow.

func init() {
	Scenarios["C19"] = &Scenario{Setup: c19Setup, Main: c19Main, Post: c19Post}
}

type c19cfg struct {
	n       int
	lazy    int
	whole   bool
	via     int
	enospc  bool
	flips   int
	prefixesTried int
	prefixExhaustive bool
	dumpLen int
	periodic bool
	size    int // configured cache size (0 = default; below 1024 the capacity is still 1024)
	noisy   bool // big answers carry incompressible data (the dump is large on the wire too)
	big     int // >0: every answer is padded to about this many bytes (blocks of 128 entries grow past the block size limit)
}

func c19Setup(rc *RunCtx) simrt.Config {
	r := rc.R
	cfg, sname := drawSimConfig(r, 400000)
	cfg.TraceLimit = 2000
	c := &c19cfg{}
	c.n = []int{0, 1, 2, 5, 20, 127, 128, 129, 300}[r.Weighted(1, 2, 3, 4, 4, 1, 1, 1, 1)]
	c.lazy = []int{0, 0, 86400, 86400, 2, 30}[r.Choose(6)] // incl. lazy lifetimes below the answers' TTLs: the entry leaves the cache before its message expires
	c.whole = c.lazy > 0 || r.Choose(3) != 0
	c.via = r.Choose(2)
	c.enospc = c.via == 0 && r.Choose(4) == 0
	c.flips = []int{0, 1, 3, 16}[r.Choose(4)]
	c.periodic = r.Choose(8) == 0
	c.size = []int{4096, 4096, 0, 64, 256}[r.Choose(5)]
	rc.Cfg["size"] = c.size
	if !c.periodic && r.Choose(10) == 0 {
		c.big = []int{4500, 9000, 20000, 60000}[r.Choose(4)]
		c.n = []int{20, 100, 128, 130, 200}[r.Choose(5)]
		c.flips = 0
		c.noisy = r.Choose(2) == 0
	}
	rc.Cfg["big_answers_incompressible"] = c.noisy
	rc.Cfg["big_answers"] = c.big
	rc.Cfg["periodic_dump_crash"] = c.periodic
	rc.Cfg["strategy"] = sname
	rc.Cfg["kind"] = "cache plugin dump/load"
	rc.Cfg["entries"] = c.n
	rc.Cfg["lazy"] = c.lazy
	rc.Cfg["whole_seconds"] = c.whole
	rc.Cfg["via"] = []string{"dump_file", "api"}[c.via]
	rc.Cfg["enospc"] = c.enospc
	rc.Cfg["flips"] = c.flips
	rc.priv = c
	return cfg
}

type dumpEntry struct {
	Key      string
	Msg      []byte
	CacheExp int64
	MsgExp   int64
	Stored   int64
}

// decodeDump is an independent reader of the dump format.
func decodeDump(b []byte) (map[string]dumpEntry, error) {
	out := map[string]dumpEntry{}
	gr, err := gzip.NewReader(bytes.NewReader(b))
	if err != nil {
		return out, err
	}
	for {
		var h [8]byte
		if _, err := io.ReadFull(gr, h[:]); err != nil {
			if err == io.EOF {
				return out, nil
			}
			return out, err
		}
		l := binary.BigEndian.Uint64(h[:])
		if l > 1<<24 {
			return out, fmt.Errorf("block too long")
		}
		buf := make([]byte, l)
		if _, err := io.ReadFull(gr, buf); err != nil {
			return out, err
		}
		blk := new(cacheplug.CacheDumpBlock)
		if err := proto.Unmarshal(buf, blk); err != nil {
			return out, err
		}
		for _, e := range blk.GetEntries() {
			out[string(e.GetKey())] = dumpEntry{string(e.GetKey()), e.GetMsg(), e.GetCacheExpirationTime(), e.GetMsgExpirationTime(), e.GetMsgStoredTime()}
		}
	}
}

func apiDump(c *cacheplug.Cache) ([]byte, int) {
	rec := httptest.NewRecorder()
	req, _ := http.NewRequest("GET", "/dump", nil)
	c.Api().ServeHTTP(rec, req)
	return rec.Body.Bytes(), rec.Code
}

func apiLoad(c *cacheplug.Cache, b []byte) int {
	rec := httptest.NewRecorder()
	req, _ := http.NewRequest("POST", "/load_dump", bytes.NewReader(b))
	c.Api().ServeHTTP(rec, req)
	return rec.Code
}

func apiFlush(c *cacheplug.Cache) {
	rec := httptest.NewRecorder()
	req, _ := http.NewRequest("GET", "/flush", nil)
	c.Api().ServeHTTP(rec, req)
}

// cacheLookup runs q through c with a next plugin that answers nothing and
// returns the packed response (nil on a miss).
func cacheLookup(c *cacheplug.Cache, q *dns.Msg) []byte {
	qCtx := query_context.NewContext(q.Copy())
	miss := execFunc(func(ctx context.Context, qc *query_context.Context) error { return nil })
	if err := c.Exec(context.Background(), qCtx, walkerOf(miss)); err != nil {
		panic(err)
	}
	if r := qCtx.R(); r != nil {
		return packOrPanic(r)
	}
	return nil
}

func cacheFill(c *cacheplug.Cache, q *dns.Msg, ans *dns.Msg) {
	qCtx := query_context.NewContext(q.Copy())
	origin := execFunc(func(ctx context.Context, qc *query_context.Context) error {
		if qc.R() == nil {
			qc.SetResponse(ans.Copy())
		}
		return nil
	})
	if err := c.Exec(context.Background(), qCtx, walkerOf(origin)); err != nil {
		panic(err)
	}
}

// c19Periodic: the periodic dump (truncate, then stream) runs in its own task
// while queries continue; the machine "crashes" after a PRNG-chosen number of
// file writes; the restarted instance loads what is on disk.
func c19Periodic(rc *RunCtx, c *c19cfg) {
	disk := simdisk.New()
	simrt.CreateHook = disk.Create
	simrt.OpenHook = disk.Open
	A := cacheplug.NewCache(&cacheplug.Args{Size: 8192, LazyCacheTTL: c.lazy, DumpFile: "p1", DumpInterval: 1}, cacheplug.Opts{})
	ttls := []uint32{300, 600, 3600}
	n := 1030 + simrt.Choose(60)
	mkq := func(i int) *dns.Msg { return mkQuery(fmt.Sprintf("p%d.test.", i), dns.TypeA, uint16(i)) }
	for i := 0; i < n; i++ {
		q := mkq(i)
		cacheFill(A, q, genAnswer(rc.R, q, ttls, false))
	}
	disk.CrashAfterWrites = 1 + simrt.Choose(12)
	if simrt.Choose(4) == 0 {
		disk.CrashAfterWrites = 1 << 30 // no crash: the periodic dump completes
	} else if simrt.Choose(3) == 0 {
		disk.CrashAfterWrites = 12 + simrt.Choose(200)
	}
	stop := false
	done := make(chan struct{}, 1)
	simrt.GoNamed("traffic", func() {
		// lookups and stores of NEW keys while the dump streams (existing entries stay as they are)
		for k := 0; !stop && k < 400; k++ {
			if simrt.Choose(2) == 0 {
				cacheLookup(A, mkq(simrt.Choose(n)))
			} else {
				q := mkq(n + k)
				cacheFill(A, q, genAnswer(rc.R, q, ttls, false))
			}
			simrt.Sleep(0, time.Millisecond)
		}
		simrt.Send(0, done, struct{}{})
	})
	simrt.Sleep(0, 1200*time.Millisecond) // the ticker fires at 1 s; the dump runs concurrently with the traffic
	stop = true
	simrt.Recv(0, done)
	if disk.Creates["p1"] == 0 {
		rc.Inconcl = "periodic dump did not start"
		A.Close()
		return
	}
	simrt.Probe("c19.periodic_dump_ran")
	if disk.Writes["p1"] > disk.CrashAfterWrites {
		simrt.Probe("c19.crash_inside_periodic_dump")
		simrt.Fault("crash_during_periodic_dump")
	}
	disk.Frozen = true
	final, _ := apiDump(A)
	want, err := decodeDump(final)
	if err != nil {
		rc.Fail("dump_unreadable", "%v", err)
		return
	}
	A.Close()
	c.dumpLen = len(disk.Files["p1"])
	simrt.Sleep(0, time.Duration(simrt.Choose(5))*time.Second)
	B := cacheplug.NewCache(&cacheplug.Args{Size: 8192, LazyCacheTTL: c.lazy, DumpFile: "p1", DumpInterval: 3600}, cacheplug.Opts{})
	got, _ := apiDump(B)
	have, err := decodeDump(got)
	if err != nil {
		rc.Fail("dump_unreadable", "%v", err)
		return
	}
	c19Subset(rc, have, want, fmt.Sprintf("after a crash during the periodic dump (%d of the file's writes reached the disk, %d bytes)", disk.CrashAfterWrites, c.dumpLen))
	if rc.Viol == nil && disk.Writes["p1"] <= disk.CrashAfterWrites {
		simrt.Probe("c19.periodic_dump_completed")
		if len(have) == 0 {
			rc.Fail("complete_periodic_dump_lost_entries", "the periodic dump completed (%d writes, %d bytes) but nothing was reloaded", disk.Writes["p1"], c.dumpLen)
		}
	}
	B.Close()
}

func c19Main(rc *RunCtx) {
	c := rc.priv.(*c19cfg)
	if c.periodic {
		c19Periodic(rc, c)
		return
	}
	disk := simdisk.New()
	simrt.CreateHook = disk.Create
	simrt.OpenHook = disk.Open
	mk := func(file string) *cacheplug.Cache {
		return cacheplug.NewCache(&cacheplug.Args{Size: c.size, LazyCacheTTL: c.lazy, DumpFile: file, DumpInterval: 36000}, cacheplug.Opts{})
	}
	adv := func() {
		var d time.Duration
		if c.whole {
			d = time.Duration(simrt.Choose(4)) * time.Second
		} else {
			d = time.Duration(simrt.Choose(4000)) * time.Millisecond
		}
		if d > 0 {
			simrt.Sleep(0, d)
		}
	}
	A := mk("d1")
	A2 := mk("")
	ttls := []uint32{1, 2, 3, 5, 10, 30, 60, 300, 3600}
	var qs []*dns.Msg
	for i := 0; i < c.n; i++ {
		q := mkQuery(fmt.Sprintf("n%d.test.", i), []uint16{dns.TypeA, dns.TypeAAAA, dns.TypeTXT, dns.TypeANY, dns.TypeAXFR, 257, 65280}[simrt.Choose(7)], uint16(simrt.Choose(65536)))
		switch simrt.Choose(8) {
		case 0: // a name of 128..253 octets (its length octet in the key is >= 0x80)
			q.Question[0].Name = fmt.Sprintf("n%d.%s.%s.%s.test.", i, strings.Repeat("a", 60), strings.Repeat("b", 60), strings.Repeat("c", 30+simrt.Choose(30)))
		case 1:
			q.Question[0].Qclass = []uint16{dns.ClassCHAOS, dns.ClassANY, 0x8001}[simrt.Choose(3)]
		case 2: // non-ASCII label bytes
			q.Question[0].Name = fmt.Sprintf("n%d.\\200\\255x.test.", i)
		}
		if simrt.Choose(4) == 0 {
			q.SetEdns0(1232, simrt.Choose(2) == 0)
		}
		ans := genAnswer(rc.R, q, ttls, true)
		if c.big > 0 && ans.Rcode == dns.RcodeSuccess {
			ttl := ttls[simrt.Choose(len(ttls))]
			lcg := uint32(simrt.Choose(1<<30)) | 1
			for k := 0; ans.Len() < c.big-300; k++ {
				body := strings.Repeat(string(rune('a'+i%26)), 247)
				if c.noisy {
					// pseudo-random printable text (one PRNG draw seeds it): gzip cannot shrink it much
					bb := make([]byte, 247)
					for j := range bb {
						lcg = lcg*1664525 + 1013904223
						bb[j] = byte('!' + (lcg>>24)%90)
					}
					body = string(bb)
				}
				ans.Answer = append(ans.Answer, &dns.TXT{Hdr: dns.RR_Header{Name: q.Question[0].Name, Rrtype: dns.TypeTXT, Class: q.Question[0].Qclass, Ttl: ttl},
					Txt: []string{fmt.Sprintf("%03d", k%1000) + body}})
			}
			simrt.Probe("c19.big_answer")
		}
		cacheFill(A, q, ans)
		cacheFill(A2, q, ans)
		qs = append(qs, q)
		if simrt.Choose(8) == 0 {
			adv()
		}
	}
	adv()
	// ---- dump at t1 ----
	intact, code := apiDump(A)
	if code != 200 {
		rc.Fail("dump_failed", "GET /dump returned %d", code)
		return
	}
	c.dumpLen = len(intact)
	want, err := decodeDump(intact)
	if err != nil {
		rc.Fail("dump_unreadable", "independent decoder cannot read the dump: %v", err)
		return
	}
	if simrt.Choose(4) == 0 && c.n > 0 {
		// overlapping dumps of the same instance (two API clients, or GET /dump
		// while the periodic dump runs): each of them is a complete dump
		nd := 2 + simrt.Choose(3)
		type dres struct {
			b    []byte
			code int
		}
		res := make([]dres, nd)
		dd := make(chan struct{}, nd)
		for i := 0; i < nd; i++ {
			i := i
			simrt.GoNamed(fmt.Sprintf("dumper%d", i), func() {
				res[i].b, res[i].code = apiDump(A)
				simrt.Send(0, dd, struct{}{})
			})
		}
		for i := 0; i < nd; i++ {
			simrt.Recv(0, dd)
		}
		simrt.Fault("overlapping_dumps")
		for i, r := range res {
			got, err := decodeDump(r.b)
			if r.code != 200 || err != nil {
				rc.Fail("dump_failed", "one of %d overlapping GET /dump calls returned %d / %v", nd, r.code, err)
				return
			}
			if len(got) != len(want) {
				rc.Fail("concurrent_dump_incomplete", "dump %d of %d overlapping GET /dump calls holds %d entries, the cache holds %d live entries (nothing was stored or expired meanwhile)", i, nd, len(got), len(want))
				return
			}
			if !c19Subset(rc, got, want, "one of several overlapping dumps:") {
				return
			}
		}
	}
	if c.enospc && len(intact) > 1 {
		disk.Limit = 1 + simrt.Choose(len(intact)-1)
	}
	A.Close() // writes d1 (dump_file path)
	if !c.enospc {
		if onDisk, err := decodeDump(disk.Files["d1"]); err != nil || len(onDisk) != len(want) {
			rc.Fail("dump_file_incomplete", "dump written on Close: %d entries (err=%v), /dump at the same instant: %d entries", len(onDisk), err, len(want))
			return
		}
	}
	adv()
	// ---- restart at t2 ----
	var B *cacheplug.Cache
	if c.via == 0 {
		B = mk("d1")
	} else {
		B = mk("")
		if st := apiLoad(B, intact); st != 200 {
			rc.Fail("load_failed", "POST /load_dump of an intact dump returned %d", st)
			return
		}
	}
	if c.enospc {
		simrt.Probe("c19.enospc_restart")
		got, _ := apiDump(B)
		have, err := decodeDump(got)
		if err != nil {
			rc.Fail("dump_unreadable", "%v", err)
			return
		}
		c19Subset(rc, have, want, fmt.Sprintf("after a dump cut by a full disk at byte %d", disk.Limit))
		B.Close()
		A2.Close()
		return
	}
	adv()
	// ---- compare at t3 ----
	for i, q := range qs {
		a := cacheLookup(A2, q)
		b := cacheLookup(B, q)
		if !c.whole && a != nil && b == nil {
			// Dump times are whole seconds: the reloaded entry may expire up to one
			// second early. If the twin also misses one second later, this is that.
			simrt.Sleep(0, time.Second)
			if a2 := cacheLookup(A2, q); a2 == nil {
				simrt.Probe("c19.expiry_within_one_second")
				continue
			}
		}
		if !c19Same(c, a, b) {
			rc.Fail("reload_differs", "question %d (%s): the instance that was never restarted serves %s, the reloaded instance serves %s (t=%v)",
				i, q.Question[0].String(), msgBrief(a), msgBrief(b), simrt.S.Elapsed())
			B.Close()
			A2.Close()
			return
		}
		if a != nil {
			simrt.Probe("c19.hit_compared")
		} else {
			simrt.Probe("c19.miss_compared")
		}
	}
	B.Close()
	A2.Close()

	// ---- crash points: prefixes of the dump ----
	C := mk("")
	var lens []int
	if len(intact) <= widen(1500, 6000) {
		c.prefixExhaustive = true
		for l := 0; l < len(intact); l++ {
			lens = append(lens, l)
		}
	} else {
		seen := map[int]bool{}
		add := func(l int) {
			if l >= 0 && l < len(intact) && !seen[l] {
				seen[l] = true
				lens = append(lens, l)
			}
		}
		for l := 0; l < 40; l++ {
			add(l)
			add(len(intact) - 1 - l)
		}
		for i := 0; i < 150; i++ {
			add(simrt.Choose(len(intact)))
		}
		sort.Ints(lens)
	}
	for _, l := range lens {
		st := apiLoad(C, intact[:l])
		c.prefixesTried++
		if st == 200 {
			rc.Fail("truncated_dump_accepted", "loading the first %d of %d bytes of a dump reported success", l, len(intact))
			break
		}
		got, _ := apiDump(C)
		have, err := decodeDump(got)
		if err != nil {
			rc.Fail("dump_unreadable", "%v", err)
			break
		}
		if !c19Subset(rc, have, want, fmt.Sprintf("after loading the first %d of %d bytes", l, len(intact))) {
			break
		}
		apiFlush(C)
	}
	// ---- corruption ----
	if rc.Viol == nil && c.flips > 0 && len(intact) > 0 {
		for round := 0; round < 8; round++ {
			var data []byte
			if round%4 == 3 {
				data = make([]byte, simrt.Choose(600))
				for i := range data {
					data[i] = byte(simrt.Choose(256))
				}
			} else {
				data = append([]byte(nil), intact...)
				for f := 0; f < c.flips; f++ {
					data[simrt.Choose(len(data))] ^= byte(1 << simrt.Choose(8))
				}
			}
			var m0, m1 runtime.MemStats
			runtime.ReadMemStats(&m0)
			apiLoad(C, data)
			runtime.ReadMemStats(&m1)
			simrt.Fault("dump_corrupted")
			if d := m1.TotalAlloc - m0.TotalAlloc; d > 64<<20 {
				rc.Fail("unbounded_allocation", "loading a %d-byte corrupted dump allocated %d bytes", len(data), d)
				break
			}
			apiFlush(C)
		}
	}
	// ---- a small file that decompresses to a lot: the loader must stop at the bad block header ----
	if rc.Viol == nil && simrt.Choose(25) == 0 {
		var zb bytes.Buffer
		gw, _ := gzip.NewWriterLevel(&zb, gzip.BestSpeed)
		gw.Name = "mosdns_cache_v2"
		hdr := []byte{0xff, 0xff, 0xff, 0xff, 0xff, 0xff, 0xff, 0xff} // block length far above the limit
		gw.Write(hdr)
		zeros := make([]byte, 1<<20)
		for i := 0; i < 96; i++ {
			gw.Write(zeros)
		}
		gw.Close()
		var m0, m1 runtime.MemStats
		runtime.ReadMemStats(&m0)
		apiLoad(C, zb.Bytes())
		runtime.ReadMemStats(&m1)
		simrt.Fault("dump_that_decompresses_to_96MiB")
		if d := m1.TotalAlloc - m0.TotalAlloc; d > 32<<20 {
			rc.Fail("unbounded_allocation", "loading a %d-byte file that decompresses to 96 MiB behind an invalid block header allocated %d bytes", zb.Len(), d)
		}
		apiFlush(C)
	}
	// ---- structurally valid dumps with damaged entries ----
	if rc.Viol == nil && simrt.Choose(3) == 0 {
		var pb []byte // CacheDumpBlock, encoded by hand (dump.proto: entries=1; key=1 msg=2 cache_exp=3 msg_exp=4 stored=5)
		now := time.Now().Unix()
		q := mkQuery("crafted.test.", dns.TypeA, 1)
		okMsg := packOrPanic(genAnswer(rc.R, q, []uint32{300}, true))
		for i := 0; i < 1+simrt.Choose(6); i++ {
			msg := append([]byte(nil), okMsg...)
			switch simrt.Choose(7) {
			case 0:
				msg[4], msg[5] = 0, 0 // QDCOUNT 0 (the question bytes become garbage records or trailing data)
			case 1:
				msg = msg[:12] // header only
				msg[4], msg[5], msg[6], msg[7], msg[8], msg[9], msg[10], msg[11] = 0, 0, 0, 0, 0, 0, 0, 0
			case 2:
				msg = nil
			case 3:
				msg = msg[:12+simrt.Choose(len(msg)-12)]
			case 4:
				msg[6], msg[7] = 0xff, 0xff // ANCOUNT 65535
			case 5:
				for k := 0; k < 4; k++ {
					msg[simrt.Choose(len(msg))] ^= byte(1 << simrt.Choose(8))
				}
			}
			key := []byte(fmt.Sprintf("k%d", i))
			if simrt.Choose(4) == 0 {
				key = nil
			}
			var e []byte
			e = protowire.AppendTag(e, 1, protowire.BytesType)
			e = protowire.AppendBytes(e, key)
			e = protowire.AppendTag(e, 2, protowire.BytesType)
			e = protowire.AppendBytes(e, msg)
			e = protowire.AppendTag(e, 3, protowire.VarintType)
			e = protowire.AppendVarint(e, uint64(now+int64(simrt.Choose(7200))-600))
			e = protowire.AppendTag(e, 4, protowire.VarintType)
			e = protowire.AppendVarint(e, uint64(now+int64(simrt.Choose(7200))-600))
			e = protowire.AppendTag(e, 5, protowire.VarintType)
			e = protowire.AppendVarint(e, uint64(now-int64(simrt.Choose(100))))
			pb = protowire.AppendTag(pb, 1, protowire.BytesType)
			pb = protowire.AppendBytes(pb, e)
		}
		var zb bytes.Buffer
		gw := gzip.NewWriter(&zb)
		gw.Name = "mosdns_cache_v2"
		var l [8]byte
		binary.BigEndian.PutUint64(l[:], uint64(len(pb)))
		gw.Write(l[:])
		gw.Write(pb)
		gw.Close()
		simrt.Fault("crafted_dump_with_damaged_entries")
		apiLoad(C, zb.Bytes()) // any status, but no panic, hang or runaway allocation
		// whatever was admitted must be servable without a panic either
		cacheLookup(C, q)
		apiDump(C)
		apiFlush(C)
	}
	C.Close()
}

func c19Subset(rc *RunCtx, have, want map[string]dumpEntry, when string) bool {
	for k, e := range have {
		w, ok := want[k]
		if !ok {
			rc.Fail("entry_invented", "%s the cache holds an entry (key %q) that the intact dump does not contain", when, k)
			return false
		}
		if !bytes.Equal(w.Msg, e.Msg) || w.CacheExp != e.CacheExp || w.MsgExp != e.MsgExp {
			rc.Fail("entry_altered", "%s entry %q differs from the intact dump", when, k)
			return false
		}
	}
	return true
}

func c19Same(c *c19cfg, a, b []byte) bool {
	if c.whole {
		return bytes.Equal(a, b)
	}
	if a == nil || b == nil {
		return a == nil && b == nil
	}
	ma, mb := new(dns.Msg), new(dns.Msg)
	if ma.Unpack(a) != nil || mb.Unpack(b) != nil {
		return false
	}
	ra := append(append(append([]dns.RR{}, ma.Answer...), ma.Ns...), ma.Extra...)
	rb := append(append(append([]dns.RR{}, mb.Answer...), mb.Ns...), mb.Extra...)
	if len(ra) != len(rb) || ma.Rcode != mb.Rcode || ma.Id != mb.Id {
		return false
	}
	for i := range ra {
		ta, tb := int64(ra[i].Header().Ttl), int64(rb[i].Header().Ttl)
		if ta-tb > 1 || tb-ta > 1 {
			return false
		}
		ra[i].Header().Ttl, rb[i].Header().Ttl = 0, 0
		if ra[i].String() != rb[i].String() {
			return false
		}
	}
	return true
}

func minTTL(m *dns.Msg) uint32 {
	min := uint32(1<<32 - 1)
	for _, s := range [][]dns.RR{m.Answer, m.Ns, m.Extra} {
		for _, rr := range s {
			if rr.Header().Rrtype != dns.TypeOPT && rr.Header().Ttl < min {
				min = rr.Header().Ttl
			}
		}
	}
	return min
}

func msgBrief(b []byte) string {
	if b == nil {
		return "<miss>"
	}
	m := new(dns.Msg)
	if err := m.Unpack(b); err != nil {
		return fmt.Sprintf("<unparsable %d bytes>", len(b))
	}
	s := fmt.Sprintf("rcode=%d", m.Rcode)
	for _, sec := range [][]dns.RR{m.Answer, m.Ns, m.Extra} {
		s += " ["
		for _, rr := range sec {
			s += fmt.Sprintf("%s/%d ", dns.TypeToString[rr.Header().Rrtype], rr.Header().Ttl)
		}
		s += "]"
	}
	return s
}

func c19Post(rc *RunCtx, res simrt.Result) {
	c := rc.priv.(*c19cfg)
	rc.Cfg["prefixes_tried"] = c.prefixesTried
	rc.Cfg["prefix_sweep_exhaustive"] = c.prefixExhaustive
	rc.Cfg["dump_bytes"] = c.dumpLen
	if res.End != simrt.EndClean && rc.Viol == nil {
		rc.Inconcl = "run did not end cleanly: " + res.End.String()
	}
}
