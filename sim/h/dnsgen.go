package h

import (
	"context"
	"fmt"
	"net"

	"github.com/IrineSistiana/mosdns/v5/pkg/query_context"
	"github.com/IrineSistiana/mosdns/v5/plugin/executable/sequence"
	"github.com/miekg/dns"
	"verif/sim/simrt"
)

// execFunc adapts a function to sequence.Executable.
type execFunc func(ctx context.Context, qCtx *query_context.Context) error

func (f execFunc) Exec(ctx context.Context, qCtx *query_context.Context) error { return f(ctx, qCtx) }

// walkerOf builds a ChainWalker that runs the given executables in order.
func walkerOf(es ...sequence.Executable) sequence.ChainWalker {
	var nodes []*sequence.ChainNode
	for _, e := range es {
		nodes = append(nodes, &sequence.ChainNode{E: e})
	}
	return sequence.NewChainWalker(nodes, nil)
}

var ttlPool = []uint32{0, 1, 2, 3, 5, 29, 30, 31, 60, 299, 300, 301, 3600, 86400, 1<<31 - 1, 1<<32 - 1}

// genAnswer builds a PRNG-chosen response to q.
//   rcodeMode: -1 any of {NOERROR,NXDOMAIN,SERVFAIL,REFUSED,FORMERR}, else fixed
func genAnswer(r *simrt.Rand, q *dns.Msg, ttls []uint32, allowEmpty bool) *dns.Msg {
	m := new(dns.Msg)
	m.SetReply(q)
	m.RecursionAvailable = true
	name := q.Question[0].Name
	rc := r.Weighted(10, 3, 2, 1, 1)
	m.Rcode = []int{dns.RcodeSuccess, dns.RcodeNameError, dns.RcodeServerFailure, dns.RcodeRefused, dns.RcodeFormatError}[rc]
	pick := func() uint32 { return ttls[r.Choose(len(ttls))] }
	na := r.Choose(4)
	if m.Rcode != dns.RcodeSuccess {
		na = 0
	}
	if !allowEmpty && m.Rcode == dns.RcodeSuccess && na == 0 {
		na = 1
	}
	for i := 0; i < na; i++ {
		switch r.Choose(3) {
		case 0:
			m.Answer = append(m.Answer, &dns.A{Hdr: dns.RR_Header{Name: name, Rrtype: dns.TypeA, Class: dns.ClassINET, Ttl: pick()}, A: net.IPv4(10, 0, byte(i), byte(r.Choose(250)))})
		case 1:
			m.Answer = append(m.Answer, &dns.CNAME{Hdr: dns.RR_Header{Name: name, Rrtype: dns.TypeCNAME, Class: dns.ClassINET, Ttl: pick()}, Target: fmt.Sprintf("c%d.%s", i, name)})
		default:
			m.Answer = append(m.Answer, &dns.TXT{Hdr: dns.RR_Header{Name: name, Rrtype: dns.TypeTXT, Class: dns.ClassINET, Ttl: pick()}, Txt: []string{fmt.Sprintf("v%d", r.Choose(1000))}})
		}
	}
	if r.Choose(2) == 0 {
		m.Ns = append(m.Ns, &dns.SOA{Hdr: dns.RR_Header{Name: "test.", Rrtype: dns.TypeSOA, Class: dns.ClassINET, Ttl: pick()}, Ns: "ns.test.", Mbox: "m.test.", Serial: 1, Refresh: 2, Retry: 3, Expire: 4, Minttl: 5})
	}
	if r.Choose(3) == 0 {
		m.Extra = append(m.Extra, &dns.A{Hdr: dns.RR_Header{Name: "ns.test.", Rrtype: dns.TypeA, Class: dns.ClassINET, Ttl: pick()}, A: net.IPv4(10, 9, 9, 9)})
	}
	return m
}

func packOrPanic(m *dns.Msg) []byte {
	b, err := m.Pack()
	if err != nil {
		panic(err)
	}
	return b
}

func mkQuery(name string, qtype uint16, id uint16) *dns.Msg {
	q := new(dns.Msg)
	q.SetQuestion(name, qtype)
	q.Id = id
	return q
}
