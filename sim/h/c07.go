package h

import (
	"context"
	"fmt"
	"sort"
	"strings"
	"time"

	"github.com/IrineSistiana/mosdns/v5/pkg/upstream"
	"github.com/IrineSistiana/mosdns/v5/pkg/upstream/transport"
	"verif/sim/simnet"
	"verif/sim/simrt"
)

// C07 — exchanges always terminate; Close releases everything.
//
// Faults (single and combined, PRNG-placed): dial error, dial that blocks until
// its context ends, error on the k-th write, error on the k-th read, short /
// garbage frame, peer close with queries in flight, silence; context cancel,
// context deadline and transport Close at PRNG-chosen instants.
//
// Oracle:
//  1. a call whose context was cancelled / expired at virtual time t has
//     returned by t+promptSlack;
//  2. with an unbounded context every call returns within livenessBound;
//  3. after Close returned: calls still pending return with an error by
//     closeReturn+promptSlack, a later call fails at once without dialling;
//  4. at the end every connection the transport opened has been closed and every
//     task it created has exited (the run ends "clean"), no later than
//     closeReturn + releaseBound.

const (
	promptSlack   = 100 * time.Millisecond
	livenessBound = 60 * time.Second
	releaseBound  = 5*time.Second + promptSlack // dial timeout
)

func init() {
	Scenarios["C07"] = &Scenario{Setup: c07Setup, Main: c07Main, Post: c07Post}
}

type c07cfg struct {
	kind     TransportKind
	callers  int
	perCall  []int
	mute     bool
	pDialErr, pDialHang          int
	pWriteErr, pReadErr          int
	pSilence, pGarbage, pPeerClose, pCloseAfter int
	pDelay   int
	pDup, pRunt int
	handoff  bool // family: many back-to-back calls on a non-pipelined transport with a very long idle timeout
	ctxMode  []int // per caller: 0 unbounded, 1 deadline, 2 cancel
	closeAt  time.Duration // 0 = after all callers returned
	maxCQ    int
	idle     time.Duration
	w        *W1
	closeRet time.Duration
	closed   bool
	dialsAtClose int
	postCall *Call
	mainEnd  time.Duration
	pinger   bool // mute server + a steady stream of short-deadline queries on the same transport
	exhaust  bool // family: >= 100 unanswered queries on consecutive wire IDs, allocator put back on that block
}

func c07Setup(rc *RunCtx) simrt.Config {
	r := rc.R
	cfg, sname := drawSimConfig(r, 40000)
	cfg.IdleCap = 30 * time.Minute
	c := &c07cfg{}
	// DoH is left out: doh.Upstream has no Close and is not in the property's
	// transport list (pipelined, UDP, non-pipelined); DoQ runs on PipelineTransport.
	c.kind = []TransportKind{TkUDP, TkTCP, TkTCPPipeline, TkPipelineStream, TkPipelineDgram, TkReuse, TkDoQ}[r.Choose(7)]
	c.callers = 1 + r.Choose(widen(6, 12))
	c.mute = r.Choose(6) == 0
	pick := func(vals ...int) int { return vals[r.Choose(len(vals))] }
	if !c.mute {
		c.pDialErr = pick(0, 0, 20, 50)
		c.pDialHang = pick(0, 0, 20)
		c.pWriteErr = pick(0, 0, 15)
		c.pReadErr = pick(0, 0, 15)
		c.pSilence = pick(0, 0, 20, 60)
		c.pGarbage = pick(0, 0, 20)
		c.pPeerClose = pick(0, 0, 20)
		c.pCloseAfter = pick(0, 0, 20)
		c.pDelay = pick(0, 50)
		c.pDup = pick(0, 0, 30)
		c.pRunt = pick(0, 0, 25)
	}
	for i := 0; i < c.callers; i++ {
		c.perCall = append(c.perCall, 1+r.Choose(3))
		if c.mute {
			c.ctxMode = append(c.ctxMode, r.Weighted(3, 1, 1))
		} else {
			c.ctxMode = append(c.ctxMode, r.Weighted(2, 2, 2))
		}
	}
	switch r.Choose(4) {
	case 0:
		c.closeAt = time.Duration(r.Choose(20)) * time.Millisecond
	case 1:
		c.closeAt = time.Duration(500+r.Choose(12000)) * time.Millisecond
	}
	if c.kind.pipelined() {
		c.maxCQ = pick(0, 0, 1, 2)
	}
	c.idle = []time.Duration{0, 0, 50 * time.Millisecond, 3 * time.Second, 10 * time.Minute}[r.Choose(5)] // 10 min: far beyond every liveness timeout
	if r.Choose(40) == 0 {
		c.exhaust = true
		cfg.MaxSteps = 400000 // > 100 tasks
		c.kind = []TransportKind{TkPipelineStream, TkPipelineDgram}[r.Choose(2)]
		c.mute, c.closeAt = false, 0
	}
	if !c.exhaust && !c.mute && r.Choose(12) == 0 {
		// connections change hands between callers all the time while the server
		// is silent on part of the queries and the idle timeout is very long: the
		// per-query liveness deadline must be in force on every one of them
		c.handoff = true
		c.kind = []TransportKind{TkReuse, TkTCP}[r.Choose(2)]
		c.callers = 3 + r.Choose(4)
		c.perCall, c.ctxMode = nil, nil
		for i := 0; i < c.callers; i++ {
			c.perCall = append(c.perCall, 2+r.Choose(3))
			c.ctxMode = append(c.ctxMode, 0)
		}
		c.idle = 10 * time.Minute
		c.pSilence, c.pGarbage, c.pPeerClose, c.pCloseAfter, c.pDelay = 30, 0, 0, 0, 0
		c.pDialErr, c.pDialHang, c.pWriteErr, c.pReadErr = 0, 0, 0, 0
		c.closeAt = 0
	}
	rc.Cfg["handoff"] = c.handoff
	c.pinger = c.mute && c.kind.pipelined() && !c.exhaust && r.Choose(2) == 0
	if c.pinger {
		c.closeAt = 0
	}
	rc.Cfg["pinger"] = c.pinger
	rc.Cfg["id_exhaustion"] = c.exhaust
	rc.Net.ChunkMode = r.Choose(3)
	rc.Cfg["strategy"] = sname
	rc.Cfg["kind"] = c.kind.String()
	rc.Cfg["callers"] = c.callers
	rc.Cfg["mute"] = c.mute
	rc.Cfg["faults"] = map[string]int{"dial_err": c.pDialErr, "dial_hang": c.pDialHang, "write_err": c.pWriteErr, "read_err": c.pReadErr,
		"silence": c.pSilence, "garbage": c.pGarbage, "peer_close": c.pPeerClose, "close_after": c.pCloseAfter, "delay": c.pDelay}
	rc.Cfg["ctx_mode"] = c.ctxMode
	rc.Cfg["close_at_ms"] = int(c.closeAt / time.Millisecond)
	rc.Cfg["max_cq"] = c.maxCQ
	rc.Cfg["idle_ms"] = int(c.idle / time.Millisecond)
	rc.priv = c
	return cfg
}

func c07Main(rc *RunCtx) {
	c := rc.priv.(*c07cfg)
	w := newW1(rc)
	c.w = w
	if c.exhaust {
		c07Exhaust(rc, c, w)
		return
	}
	plan := func(sc *simnet.Conn, nth int, call *Call, wid uint16) Action {
		a := Action{}
		if c.mute {
			a.NoReply = true
			return a
		}
		x := simrt.Choose(100)
		switch {
		case x < c.pSilence:
			a.NoReply = true
		case x < c.pSilence+c.pGarbage:
			a.Garbage = true
		case x < c.pSilence+c.pGarbage+c.pPeerClose:
			a.CloseBefore = true
			simrt.Fault("srv_close_in_flight")
		case x < c.pSilence+c.pGarbage+c.pPeerClose+c.pCloseAfter:
			a.CloseAfter = true
		}
		if simrt.Choose(100) < c.pDelay {
			a.Delay = []time.Duration{time.Millisecond, 300 * time.Millisecond, 2 * time.Second}[simrt.Choose(3)]
		}
		if c.kind.pipelined() && simrt.Choose(100) < c.pDup {
			a.Dup = 1 + simrt.Choose(2) // duplicate replies (as a UDP resend provokes), back to back
		}
		if !sc.Stream && c.pRunt > 0 && simrt.Choose(100) < c.pRunt {
			a.Runt = true // a datagram shorter than a DNS header (down to zero bytes) before the reply
		}
		return a
	}
	serve := w.Serve(ServerOpts{Plan: plan})
	dialFault := func(ctx context.Context, nth int) error {
		x := simrt.Choose(100)
		if x < c.pDialErr {
			simrt.Fault("dial_error")
			return simnet.ErrRefused
		}
		if x < c.pDialErr+c.pDialHang {
			simrt.Fault("dial_hang")
			simrt.Recv(0, ctx.Done())
			return ctx.Err()
		}
		return nil
	}
	rc.Net.Handle("udp", srvAddr, serve).DialFault = dialFault
	rc.Net.Handle("tcp", srvAddr, serve).DialFault = dialFault
	rc.Net.Handle("udp", dohAddr, serve).DialFault = dialFault
	rc.Net.Handle("tcp", doqAddr, serve) // QUIC streams: opening one is not a dial
	w.DoQDialFault = dialFault
	rc.Net.OnDial = func(cc *simnet.Conn) {
		if simrt.Choose(100) < c.pWriteErr {
			cc.FailWriteAt = 1 + simrt.Choose(3)
		}
		if simrt.Choose(100) < c.pReadErr {
			cc.FailReadAt = 1 + simrt.Choose(4)
		}
	}

	u := w.NewTransport(c.kind, TransportOpts{MaxCQ: c.maxCQ, MaxLazyQ: c.maxCQ, IdleTimeout: c.idle})
	done := make(chan struct{}, c.callers)
	doClose := func() {
		if c.closed {
			return
		}
		u.Close()
		c.closed = true
		w.Closed = true
		c.closeRet = simrt.S.Elapsed()
		c.dialsAtClose = len(rc.Net.Conns())
		simrt.Fault("transport_close")
	}
	if c.closeAt > 0 {
		simrt.GoNamed("closer", func() {
			simrt.Sleep(0, c.closeAt)
			doClose()
		})
	}
	for ci := 0; ci < c.callers; ci++ {
		ci := ci
		simrt.GoNamed(fmt.Sprintf("caller%d", ci), func() {
			for s := 0; s < c.perCall[ci]; s++ {
				call := w.NewCall(ci, s, uint16(simrt.Choose(65536)), 1)
				c07Ctx(c, call, c.ctxMode[ci])
				w.Exchange(u, call)
				if call.Cancel != nil {
					call.Cancel()
				}
				w.CheckProvenance(call)
				if rc.Viol != nil {
					break
				}
			}
			simrt.Send(0, done, struct{}{})
		})
	}
	if c.pinger {
		// Other traffic keeps flowing over the same (entirely silent) connection
		// at intervals below the liveness timeout, for longer than the liveness
		// bound: the dead connection must still be detected and the calls with an
		// unbounded context must still return.
		simrt.GoNamed("pinger", func() {
			for s := 0; s < 25; s++ {
				call := w.NewCall(50, s, uint16(simrt.Choose(65536)), 1)
				ctx, cancel := context.WithTimeout(context.Background(), 3*time.Second)
				call.Ctx, call.Cancel, call.Deadline = ctx, cancel, simrt.S.Elapsed()+3*time.Second
				w.Exchange(u, call)
				cancel()
			}
			simrt.Send(0, done, struct{}{})
		})
		simrt.Recv(0, done)
	}
	for i := 0; i < c.callers; i++ {
		simrt.Recv(0, done)
	}
	doClose()
	// a call after Close must fail at once and must not dial
	pc := w.NewCall(99, 0, 1, 1)
	c.postCall = pc
	w.Exchange(u, pc)
	c.mainEnd = simrt.S.Elapsed()
}

// c07Exhaust: one pipelined connection (limit above 100) carries >= 100
// unanswered queries on consecutive wire IDs; the allocator is put back on that
// block (the state after ~65k further queries), so the next queries find no free
// ID among their 100 candidates and are refused. Everything must still
// terminate: the refused calls, the held calls once they are answered, later
// calls, and Close.
func c07Exhaust(rc *RunCtx, c *c07cfg, w *W1) {
	stream := c.kind == TkPipelineStream
	network := "udp"
	if stream {
		network = "tcp"
	}
	hold := make(chan struct{})
	plan := func(sc *simnet.Conn, nth int, call *Call, wid uint16) Action {
		if call != nil && call.Caller >= 100 && call.Caller < 1000 {
			return Action{HoldUntil: hold}
		}
		return Action{}
	}
	rc.Net.Handle(network, srvAddr, w.Serve(ServerOpts{Plan: plan}))
	L := 101 + simrt.Choose(30)
	var dcs []*transport.TraditionalDnsConn
	start := []uint16{0, 0xFFC0, uint16(simrt.Choose(65536))}[simrt.Choose(3)]
	u := transport.NewPipelineTransport(transport.PipelineOpts{
		DialContext: func(ctx context.Context) (transport.DnsConn, error) {
			nc, err := rc.Net.Dial(ctx, network, srvAddr)
			if err != nil {
				return nil, err
			}
			dc := transport.NewDnsConn(transport.TraditionalDnsConnOpts{WithLengthHeader: stream, MaxConcurrentQuery: L}, nc)
			dc.VerifSetNextQid(start)
			dcs = append(dcs, dc)
			return dc, nil
		},
	})
	// warm up: the connection exists
	w.Exchange(u, w.NewCall(0, 0, 1, 1))
	n := 100 + simrt.Choose(L-100)
	done := make(chan struct{}, 256)
	for i := 0; i < n; i++ {
		call := w.NewCall(100+i, 0, uint16(i), 1)
		ctx, cancel := context.WithTimeout(context.Background(), 30*time.Second)
		call.Ctx, call.Cancel, call.Deadline = ctx, cancel, simrt.S.Elapsed()+30*time.Second
		simrt.GoNamed(fmt.Sprintf("held%d", i), func() {
			w.Exchange(u, call)
			cancel()
			simrt.Send(0, done, struct{}{})
		})
	}
	simrt.Sleep(0, 20*time.Millisecond)
	if len(dcs) != 1 {
		rc.Inconcl = fmt.Sprintf("%d connections instead of one", len(dcs))
	}
	k := 1 + simrt.Choose(3)
	for j := 0; j < k && rc.Viol == nil; j++ {
		for _, dc := range dcs {
			dc.VerifSetNextQid(start + 1)
		}
		simrt.Fault("wire_id_rewind")
		call := w.NewCall(1000+j, 0, uint16(1000+j), 1)
		ctx, cancel := context.WithTimeout(context.Background(), 50*time.Millisecond)
		call.Ctx, call.Cancel, call.Deadline = ctx, cancel, simrt.S.Elapsed()+50*time.Millisecond
		w.Exchange(u, call)
		cancel()
	}
	close(hold)
	for i := 0; i < n; i++ {
		simrt.Recv(0, done)
	}
	w.Exchange(u, w.NewCall(2000, 0, 2, 1)) // a later call on the same transport
	u.Close()
	c.closed, w.Closed = true, true
	c.closeRet = simrt.S.Elapsed()
	c.dialsAtClose = len(rc.Net.Conns())
	simrt.Fault("transport_close")
	pc := w.NewCall(99, 0, 1, 1)
	c.postCall = pc
	w.Exchange(u, pc)
	c.mainEnd = simrt.S.Elapsed()
}

func c07Ctx(c *c07cfg, call *Call, mode int) {
	switch mode {
	case 1:
		d := []time.Duration{time.Millisecond, 500 * time.Millisecond, 3 * time.Second, 7 * time.Second}[simrt.Choose(4)]
		ctx, cancel := context.WithTimeout(context.Background(), d)
		call.Ctx, call.Cancel = ctx, cancel
		call.Deadline = simrt.S.Elapsed() + d
	case 2:
		ctx, cancel := context.WithCancel(context.Background())
		call.Ctx, call.Cancel = ctx, cancel
		d := []time.Duration{0, time.Millisecond, 20 * time.Millisecond, 1500 * time.Millisecond, 4 * time.Second}[simrt.Choose(5)]
		simrt.GoNamed(fmt.Sprintf("cancel%d", call.Idx), func() {
			simrt.Sleep(0, d)
			if !call.Done {
				simrt.Fault("ctx_cancel_in_flight")
			}
			call.CancelledAt = simrt.S.Elapsed()
			call.CancelledStep = simrt.S.Steps()
			cancel()
		}).Daemon = true
	}
}

func c07Post(rc *RunCtx, res simrt.Result) {
	c := rc.priv.(*c07cfg)
	w := c.w
	if w == nil {
		return
	}
	if res.End == simrt.EndStepCap && c.exhaust {
		// more than 100 tasks: a run of this family that is cut by the simulator's
		// step budget says nothing (counted as inconclusive). Elsewhere the budget
		// is far above what a run needs, and burning it is a livelock.
		return
	}
	for _, x := range w.Calls {
		if !x.Started {
			continue
		}
		if !x.Done {
			rc.Fail("call_never_returned", "call %d (%s) started at t=%v never returned (run end: %s %s)", x.Idx, x.QName, x.StartAt, res.End, leakSummary(res))
			return
		}
		if x.Deadline > 0 && x.EndAt > x.Deadline+promptSlack {
			rc.Fail("late_after_deadline", "call %d: context deadline at t=%v but the call returned at t=%v", x.Idx, x.Deadline, x.EndAt)
			return
		}
		if x.CancelledStep > 0 && x.EndAt > x.CancelledAt+promptSlack && x.CancelledAt >= x.StartAt {
			rc.Fail("late_after_cancel", "call %d: context cancelled at t=%v but the call returned at t=%v", x.Idx, x.CancelledAt, x.EndAt)
			return
		}
		if x.EndAt-x.StartAt > livenessBound {
			rc.Fail("liveness_bound_exceeded", "call %d (%s on %s): took %v of virtual time (start t=%v, end t=%v, err=%v); bound is %v",
				x.Idx, x.QName, rc.Cfg["kind"], x.EndAt-x.StartAt, x.StartAt, x.EndAt, x.Err, livenessBound)
			return
		}
		if c.closed && x.StartAt <= c.closeRet && x.EndAt > c.closeRet+promptSlack {
			rc.Fail("pending_call_outlives_close", "call %d: Close returned at t=%v but the pending call returned at t=%v (err=%v)", x.Idx, c.closeRet, x.EndAt, x.Err)
			return
		}
		if c.closed && x.StartAt > c.closeRet && x.Err == nil {
			rc.Fail("call_succeeds_after_close", "call %d started at t=%v after Close (t=%v) and succeeded", x.Idx, x.StartAt, c.closeRet)
			return
		}
	}
	if pc := c.postCall; pc != nil && pc.Done {
		if pc.Err == nil {
			rc.Fail("call_succeeds_after_close", "a call issued after Close succeeded")
			return
		}
		if pc.EndAt != pc.StartAt {
			rc.Fail("call_after_close_not_immediate", "a call issued after Close took %v", pc.EndAt-pc.StartAt)
			return
		}
	}
	if res.End == simrt.EndStepCap {
		return
	}
	// release
	var leaked []string
	for _, l := range res.Leaked {
		if !l.Daemon {
			leaked = append(leaked, fmt.Sprintf("%s@%s[%s]", l.GoSite, l.Site, l.State))
		}
	}
	if len(leaked) > 0 {
		sort.Strings(leaked)
		rc.Fail("tasks_not_released:"+res.End.String(), "run ended %q (stuck at %s): after Close these tasks never finished: %s", res.End.String(), siteSet(res), strings.Join(leaked, "; "))
		return
	}
	if res.End != simrt.EndClean {
		rc.Inconcl = "harness tasks stuck: " + leakSummary(res)
		return
	}
	for _, cc := range rc.Net.Conns() {
		if !cc.IsClosed() {
			rc.Fail("connection_not_closed", "connection %d was never closed by the transport (closed at t=%v)", cc.ID, c.closeRet)
			return
		}
	}
	if len(rc.Net.Conns()) > c.dialsAtClose {
		// connections dialled after Close returned must be the completion of dials started before
		simrt.Probe("c07.dial_completed_after_close")
	}
	// every transport task must be gone within releaseBound after Close
	for _, t := range simSnapshotTasks {
		if t.Daemon || t.ID == 0 || strings.HasPrefix(t.Name, "caller") || t.Name == "closer" {
			continue
		}
		if t.ExitAt > c.closeRet+releaseBound && t.ExitAt > c.mainEnd {
			rc.Fail("task_released_late", "task %s exited at t=%v, Close returned at t=%v", t.Name, t.ExitAt, c.closeRet)
			return
		}
	}
}

// simSnapshotTasks is set by the worker before Post (tasks of the finished run).
var simSnapshotTasks []*simrt.Task

func leakSummary(res simrt.Result) string {
	var s []string
	for _, l := range res.Leaked {
		s = append(s, fmt.Sprintf("%s@%s[%s]", l.Name, l.Site, l.State))
	}
	return strings.Join(s, "; ")
}

// siteSet is a stable summary of where non-daemon tasks are stuck.
func siteSet(res simrt.Result) string {
	m := map[string]bool{}
	for _, l := range res.Leaked {
		if !l.Daemon {
			m[l.Site] = true
		}
	}
	var k []string
	for s := range m {
		k = append(k, s)
	}
	sort.Strings(k)
	return strings.Join(k, ",")
}

var _ upstream.Upstream
